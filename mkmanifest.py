#!/usr/bin/env python3
"""Regenerates MANIFEST.json from props.py (claimed properties) and properties.jsonl (ids)."""
import json, os, sys
ROOT = os.path.dirname(os.path.abspath(__file__))
sys.path.insert(0, ROOT)
import props

ids = [json.loads(l)["id"] for l in open(os.path.join(ROOT, "properties.jsonl"))]
checks, na = [], []
for pid in ids:
    P = props.PROPS.get(pid)
    if P is None or P.get("unclaimed"):
        reason = props.NOT_APPLICABLE.get(pid, "check not built yet (see DESIGN.md section 9 build order)")
        na.append(dict(property_id=pid, reason=reason))
        continue
    c = dict(property_id=pid,
             quick_cmd="./check %s --tier quick" % pid,
             thorough_cmd="./check %s --tier thorough" % pid,
             evidence_file="evidence/%s.json" % pid,
             replay_cmd_template="./check --replay {path}",
             engine="gosym",
             level_claimed=dict(category=P["level"], text=P["level_text"], design_ref=P.get("design_ref", "DESIGN.md section 7 " + pid)),
             level_note=P["level_note"],
             technique=P.get("technique", "symbolic execution of go/ssa + SMT (z3/cvc5), bounded"))
    checks.append(c)
m = dict(version=1,
         setup_cmd="cd /verif/engine && GOFLAGS=-mod=mod GOPROXY=off GOSUMDB=off GOTOOLCHAIN=local go build -o /verif/bin/gosym . && cd /verif && ./check selftest",
         hooks=dict(guard="verif",
                    enable="none needed: harnesses and intrinsics enter the build only through go/packages Overlay (engine) and go test -overlay (native replay); /repo carries no hook code",
                    baseline_off_cmd="for m in . v2; do (cd /repo/$m && GOFLAGS=-mod=mod go test -vet=off -count=1 -timeout 25m ./...); done",
                    source_commits=[], add_only=True),
         engines=[dict(name="gosym", path="engine", serves_properties=[c["property_id"] for c in checks],
                       kind_free_text="symbolic executor for Go SSA (golang.org/x/tools/go/ssa v0.29.0) written for this task: path-wise forking with solver feasibility checks, "
                                      "SMT-LIB2 back ends z3 4.8.12 / z3 5.1.0 / cvc5 1.0.3 (bit-vector, integer, floating-point and uninterpreted-function encodings), "
                                      "single-goroutine channel/select/time model with environment hooks, native replay of counterexamples through go test -overlay")],
         checks=checks,
         notes="Every check regenerates its encoding from /repo's working tree on each run. known_findings.txt lists recorded/fixed findings. See DESIGN.md.",
         not_applicable=na)
json.dump(m, open(os.path.join(ROOT, "MANIFEST.json"), "w"), indent=1)
print("claimed:", [c["property_id"] for c in checks])
print("not_applicable:", [x["property_id"] for x in na])
