#!/bin/bash
# usage: tools/confirm_mutant.sh <mutdir> <worktree> <module-subdir> <pkgpattern> <demo-run-regex> <demo target path rel to worktree> <demo file>
# Confirms: demo FAILS with the patch, PASSES without; the package's existing tests pass with the patch.
set -u
MUT=$1; WT=$2; MOD=$3; PKG=$4; RUN=$5; TARGET=$6; DEMO=$7
export GOFLAGS=-mod=mod GOPROXY=off GOSUMDB=off GOTOOLCHAIN=local
cd $WT && git checkout -q -- . && git clean -fdq
cp $MUT/$DEMO $WT/$TARGET
echo "== without patch (expect PASS)"
(cd $WT/$MOD && go test -vet=off -count=1 -run "$RUN" $PKG 2>&1 | tail -3)
git -C $WT apply $MUT/patch.diff || { echo "PATCH DOES NOT APPLY"; exit 1; }
echo "== with patch (expect FAIL)"
(cd $WT/$MOD && go test -vet=off -count=1 -run "$RUN" $PKG 2>&1 | tail -5)
rm $WT/$TARGET
echo "== existing tests with patch (expect ok)"
(cd $WT/$MOD && go test -vet=off -count=1 -timeout 20m $PKG 2>&1 | tail -3)
