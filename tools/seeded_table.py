#!/usr/bin/env python3
"""Prints the markdown table of seeded changes (DESIGN.md section 11) from seeded/*/meta.json."""
import glob, json, os
print("| seeded change | property | what it needs to manifest | confirmed | checks run (exit) | caught by |")
print("|---|---|---|---|---|---|")
for d in sorted(glob.glob(os.path.join(os.path.dirname(os.path.abspath(__file__)), "..", "seeded", "*", "meta.json"))):
    m = json.load(open(d))
    name = os.path.basename(os.path.dirname(d))
    needs = (m.get("needs") or "").replace("\n", " ").replace("|", "/")
    if len(needs) > 230:
        needs = needs[:227] + "..."
    runs = ", ".join("%s (%s)" % (p, c["exit"]) for p, c in m.get("checks_run_against_it", {}).items())
    caught = []
    for p, c in m.get("checks_run_against_it", {}).items():
        if c["exit"] == 1:
            hs = sorted(set(l.split("harness=")[1].split(" ")[0] for l in c["lines"] if "harness=" in l))
            caught.append("%s: %s" % (p, ", ".join(hs[:3])))
    print("| %s | %s | %s | %s | %s | %s |" % (name, m.get("property"), needs, "yes" if m.get("confirmed_by_me", {}).get("confirmed") else "NO", runs, "; ".join(caught) or "**missed**"))
