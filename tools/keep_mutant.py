#!/usr/bin/env python3
"""usage: tools/keep_mutant.py <name> <mutdir> <worktree> <module-subdir> <pkg-pattern> <run-regex> <demo-file> <demo-target-rel> <prop> [<prop>...]
Confirms a seeded change (demo passes without / fails with the patch, existing package tests pass with it), runs the given checks
against it in /repo (applied, then reverted) and stores everything under /verif/seeded/<name>/."""
import json, os, shutil, subprocess, sys
name, mut, wt, mod, pkg, run, demo, target = sys.argv[1:9]
props = sys.argv[9:]
flags = os.environ.get("MUT_TEST_FLAGS", "")  # e.g. -race for demonstrations that rely on the race detector
env = dict(os.environ, GOFLAGS="-mod=mod", GOPROXY="off", GOSUMDB="off", GOTOOLCHAIN="local")
def sh(cmd, cwd=None, timeout=1800):
    r = subprocess.run(cmd, shell=True, cwd=cwd, env=env, capture_output=True, text=True, timeout=timeout)
    return r.returncode, (r.stdout + r.stderr)
out = {}
sh("git checkout -q -- . && git clean -fdq", wt)
shutil.copy(os.path.join(mut, demo), os.path.join(wt, target))
rc, o = sh("go test %s -vet=off -count=1 -run '%s' %s" % (flags, run, pkg), os.path.join(wt, mod))
out["demo_without_patch"] = dict(rc=rc, tail=o[-600:])
rc, o = sh("git apply %s" % os.path.join(mut, "patch.diff"), wt)
assert rc == 0, o
rc, o = sh("go test %s -vet=off -count=1 -run '%s' %s" % (flags, run, pkg), os.path.join(wt, mod))
out["demo_with_patch"] = dict(rc=rc, tail=o[-1200:])
os.remove(os.path.join(wt, target))
rc, o = sh("go build ./... && go test -vet=off -count=1 -timeout 20m %s" % pkg, os.path.join(wt, mod))
out["existing_tests_with_patch"] = dict(rc=rc, tail=o[-600:])
confirmed = out["demo_without_patch"]["rc"] == 0 and out["demo_with_patch"]["rc"] != 0 and out["existing_tests_with_patch"]["rc"] == 0
print("confirmed:", confirmed, {k: v["rc"] for k, v in out.items()})
checks = {}
# the checks run against the scratch worktree (patch applied), not against /repo
sh("git checkout -q -- . && git clean -fdq", wt)
rc, o = sh("git apply %s" % os.path.join(mut, "patch.diff"), wt)
assert rc == 0, o
frozen = "/tmp/gosym_frozen_%d" % os.getpid()
shutil.copy("/verif/bin/gosym", frozen)  # later engine rebuilds must not change the binary under a running experiment
env2 = dict(env, GOSYM_BIN=frozen, VERIF_REPO=wt, VERIF_OUT="/tmp/vout_" + name, VERIF_EVIDENCE_DIR="/tmp/vout_" + name + "/evidence")
for p in props:
    r = subprocess.run("./check %s" % p, shell=True, cwd="/verif", env=env2, capture_output=True, text=True, timeout=3600)
    o = r.stdout + r.stderr
    lines = [l[:300] for l in o.splitlines() if l.startswith(("VIOLATION", "KNOWN-FINDING", "UNPROVEN", "SPURIOUS", "MACHINERY", "  harness="))]
    checks[p] = dict(exit=r.returncode, lines=lines[:12])
    print(p, "exit", r.returncode, lines[:4])
shutil.rmtree("/tmp/vout_" + name, ignore_errors=True)
os.remove(frozen)
dst = os.path.join("/verif/seeded", name)
os.makedirs(dst, exist_ok=True)
shutil.copy(os.path.join(mut, "patch.diff"), dst)
shutil.copy(os.path.join(mut, demo), dst)
meta = {}
mp = os.path.join(mut, "meta.json")
if os.path.exists(mp):
    try:
        meta = json.load(open(mp))
    except Exception as e:
        meta = {"agent_meta_unparsed": open(mp).read()[:4000]}
meta["confirmed_by_me"] = dict(confirmed=confirmed, worktree=wt, module=mod, package=pkg, demo_run=run, demo_target=target, results=out)
meta["checks_run_against_it"] = checks
meta["detected_by"] = [p for p, c in checks.items() if c["exit"] == 1]
json.dump(meta, open(os.path.join(dst, "meta.json"), "w"), indent=1)
