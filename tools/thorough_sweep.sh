#!/bin/bash
# runs every thorough command once in the current directory (used with `vp run`: the snapshot has no bin/, so build first)
export GOFLAGS=-mod=mod GOPROXY=off GOSUMDB=off GOTOOLCHAIN=local
(cd engine && go build -o ../bin/gosym .) || exit 2
for p in "$@"; do
  s=$(date +%s)
  ./check $p --tier thorough > thorough_$p.out 2>&1
  echo "$p exit=$? $(( $(date +%s) - s ))s $(grep -E '^(VIOLATION|MACHINERY|SPURIOUS|UNPROVEN|KNOWN)' thorough_$p.out | head -3 | cut -c1-200)"
done
