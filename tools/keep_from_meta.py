#!/usr/bin/env python3
"""usage: tools/keep_from_meta.py <name> <mutdir> <worktree> <prop> [<prop>...]   -- reads module/package/demo fields from <mutdir>/meta.json and calls keep_mutant.py"""
import json, os, subprocess, sys
name, mut, wt = sys.argv[1:4]
props = sys.argv[4:]
m = json.load(open(os.path.join(mut, "meta.json")))
mod = m.get("module", ".")
pkg = m["package"]
env = dict(os.environ)
if m.get("demo_flags"):
    env["MUT_TEST_FLAGS"] = m["demo_flags"]
cmd = [os.path.join(os.path.dirname(os.path.abspath(__file__)), "keep_mutant.py"), name, mut, wt, mod, pkg, m["demo_run_regex"], m["demo_file"], m["demo_target_path"]] + props
sys.exit(subprocess.run(["python3"] + cmd, env=env).returncode)
