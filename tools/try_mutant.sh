#!/bin/bash
# usage: tools/try_mutant.sh <patch.diff> <prop> [<prop>...]   -- applies the patch to /repo, runs the checks, reverts
set -u
P=$1; shift
cd /verif
git -C /repo diff --quiet || { echo "/repo is dirty"; exit 1; }
git -C /repo apply $P || { echo "PATCH DOES NOT APPLY"; exit 1; }
for prop in "$@"; do
  ./check $prop > /tmp/try_$prop.out 2>&1; rc=$?
  echo "== $prop exit=$rc"; grep -E "^(VIOLATION|KNOWN-FINDING|UNPROVEN|SPURIOUS|MACHINERY|  harness=)" /tmp/try_$prop.out | cut -c1-260 | head -8
done
git -C /repo checkout -- .
