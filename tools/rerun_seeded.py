#!/usr/bin/env python3
"""usage: tools/rerun_seeded.py [name-regexp] [--props C01,C02]
Re-runs the checks against every seeded change stored under /verif/seeded (regression of the checks):
for each change a scratch worktree of /repo is created under /tmp, patch.diff is applied, the checks listed in
its meta.json (or --props) are run with VERIF_REPO pointing at the worktree, meta.json is updated with the
result ("checks_run_against_it", "detected_by") and the worktree is removed. /repo itself is never touched."""
import json, os, re, shutil, subprocess, sys, time

ROOT = "/verif"
pat = re.compile(sys.argv[1]) if len(sys.argv) > 1 and not sys.argv[1].startswith("--") else re.compile(".")
forced = None
for i, a in enumerate(sys.argv):
    if a == "--props":
        forced = sys.argv[i + 1].split(",")
env = dict(os.environ, GOFLAGS="-mod=mod", GOPROXY="off", GOSUMDB="off", GOTOOLCHAIN="local")
frozen = "/tmp/gosym_rerun_%d" % os.getpid()
shutil.copy(os.path.join(ROOT, "bin", "gosym"), frozen)
summary = []
for name in sorted(os.listdir(os.path.join(ROOT, "seeded"))):
    d = os.path.join(ROOT, "seeded", name)
    mp = os.path.join(d, "meta.json")
    if name.startswith("_") or not os.path.exists(mp) or not pat.search(name):
        continue
    meta = json.load(open(mp))
    props = forced or list((meta.get("checks_run_against_it") or {}).keys()) or [meta.get("property")]
    wt = "/tmp/wt_rerun_%s" % name
    subprocess.run(["git", "-C", "/repo", "worktree", "remove", "--force", wt], capture_output=True)
    r = subprocess.run(["git", "-C", "/repo", "worktree", "add", "-q", "--detach", wt, "HEAD"], capture_output=True, text=True)
    if r.returncode != 0:
        print(name, "worktree failed:", r.stderr)
        continue
    try:
        r = subprocess.run(["git", "apply", os.path.join(d, "patch.diff")], cwd=wt, capture_output=True, text=True)
        if r.returncode != 0:
            print(name, "PATCH DOES NOT APPLY:", r.stderr[:300])
            summary.append((name, "patch does not apply"))
            continue
        out = "/tmp/vout_rerun_" + name
        env2 = dict(env, GOSYM_BIN=frozen, VERIF_REPO=wt, VERIF_OUT=out, VERIF_EVIDENCE_DIR=out + "/evidence")
        checks = dict(meta.get("checks_run_against_it") or {}) if forced else {}  # --props: refresh only those, keep the others
        for p in props:
            t0 = time.time()
            r = subprocess.run("./check %s" % p, shell=True, cwd=ROOT, env=env2, capture_output=True, text=True, timeout=7200)
            o = r.stdout + r.stderr
            lines = [l[:300] for l in o.splitlines() if l.startswith(("VIOLATION", "KNOWN-FINDING", "UNPROVEN", "SPURIOUS", "MACHINERY", "  harness="))]
            checks[p] = dict(exit=r.returncode, lines=lines[:12], seconds=int(time.time() - t0))
            print(name, p, "exit", r.returncode, lines[:2], flush=True)
        meta["checks_run_against_it"] = checks
        meta["detected_by"] = [p for p, c in checks.items() if c["exit"] == 1]
        meta["rerun_at_verif_commit"] = subprocess.run(["git", "-C", ROOT, "rev-parse", "--short", "HEAD"], capture_output=True, text=True).stdout.strip()
        json.dump(meta, open(mp, "w"), indent=1)
        summary.append((name, ",".join("%s=%d" % (p, c["exit"]) for p, c in checks.items())))
        shutil.rmtree(out, ignore_errors=True)
    finally:
        subprocess.run(["git", "-C", "/repo", "worktree", "remove", "--force", wt], capture_output=True)
os.remove(frozen)
print("---- summary")
for n, s in summary:
    print(n, s)
