#!/bin/bash
# times every thorough command once (evidence redirected, frozen engine)
cd /verif
cp bin/gosym /tmp/gosym_thorough
for p in "$@"; do
  s=$(date +%s)
  GOSYM_BIN=/tmp/gosym_thorough VERIF_OUT=/tmp/vout_th VERIF_EVIDENCE_DIR=/tmp/vout_th/ev ./check $p --tier thorough > /tmp/thorough_$p.out 2>&1
  echo "$p exit=$? $(( $(date +%s) - s ))s $(grep -E '^(VIOLATION|MACHINERY|SPURIOUS|UNPROVEN)' /tmp/thorough_$p.out | head -3 | cut -c1-160)"
done
