package limit

import "time"

// Translator validation for the rate conversion on concrete vectors (Int encoding, big.Int stub).
// gosym: mode=int
func VerifTV_rate() {
	is := []time.Duration{1, 2, 7, 1000, time.Millisecond, 10 * time.Millisecond, 20*time.Millisecond + 1, time.Second, time.Hour, 9223372036854775807}
	qs := []uint64{1, 2, 3, 10, 1000, 1000000, 4611686018427387903, 9223372036854775808, 18446744073709551615}
	ms := []time.Duration{0, 1, 2, 3, time.Millisecond, 10 * time.Millisecond, time.Second}
	for _, i := range is {
		for _, q := range qs {
			for _, m := range ms {
				r, err := Rate{Interval: i, Quantity: q}.Recalculate(m)
				vDump("recalc", int64(i), q, int64(m), int64(r.Interval), r.Quantity, err != nil)
			}
		}
	}
	vReach("end")
}
