package limit

import "time"

// C04 / C12 (v2 limit): real New + main on M symbolic elements; Quantity and
// Interval are unconstrained valid values; time is a symbolic non-decreasing clock
// (every clock reading may be arbitrarily later than the previous one; Sleep(d)
// advances by at least d).

type vLimEnv struct {
	d      *Discipline[int]
	items  []int
	out    []int
	times  []int64
	batch  []int // index of the batch (= number of Sleep calls before the send)
	rtimes []int64 // clock reading right after each element was taken from the input
	t0     int64
	rate   Rate // the rate the user asked for (NOT what the discipline stored)
}

func vLimitSetup() *vLimEnv {
	M := vParam("M", 3)
	e := &vLimEnv{}
	capIn := M + 1
	mode := vChoose("arrivals", 3) // 0: all there up-front (buffered), 1: unbuffered with eager writers, 2: arriving in bursts after stalls
	if mode == 1 {
		capIn = 0
	}
	in := make(chan int, capIn)
	for i := 0; i < M; i++ {
		e.items = append(e.items, vNondetInt("x"))
	}
	switch mode {
	case 0:
		for _, x := range e.items {
			in <- x
		}
		close(in)
	case 1:
		for _, x := range e.items {
			vPark(in, x)
		}
		// the producer closes after its last element was taken
		vOnBlock(in, func() { close(in) })
	case 2:
		// the input runs empty at arbitrary points (the discipline waits - for any length of time, the clock is free to
		// jump); then the next burst of arbitrary size arrives; after the last element the producer closes
		fed := 0
		feed := func() {
			if fed == M {
				if vIsClosed(in) {
					vDecline()
					return
				}
				close(in)
				return
			}
			k := 1 + vChoose("burst", M-fed)
			for ; k > 0; k-- {
				in <- e.items[fed]
				fed++
			}
		}
		if M > 0 && vChoose("some-up-front", 2) == 1 {
			feed()
		}
		vOnBlock(in, feed)
	}
	rate := Rate{Interval: time.Duration(vNondetI64("interval")), Quantity: vNondetU64("quantity")}
	e.t0 = vNow()
	e.rate = rate
	d, err := New(Opts[int]{Input: in, Limit: rate})
	if err != nil {
		vAssert(rate.IsValid() != nil, "New rejects only invalid rates")
		vAssume(false)
	}
	vAssert(vAnd(rate.Interval > 0, rate.Quantity > 0), "New accepts only valid rates")
	e.d = d
	vSink(d.output)
	vOnRecv(in, func(v any, ok bool) {
		if ok {
			vAdvance() // real time passes between the discipline's own clock readings
			e.rtimes = append(e.rtimes, vNow())
		}
	})
	vOnSend(d.output, func(v any) {
		e.out = append(e.out, v.(int))
		vAdvance()
		e.times = append(e.times, vNow())
		e.batch = append(e.batch, vSleepCount())
	})
	return e
}

// gosym: mode=int
func VerifC04_limit_run() {
	e := vLimitSetup()
	M := vParam("M", 3)
	d := e.d
	vSleepBudget(M + 2)
	// the batch / pause oracles below read the pacing off time.Sleep (the only primitive whose requested duration is an
	// upper-bound-free fact on the symbolic clock); code that paces with a ticker is outside what this harness can judge
	vNoTickers("the limit discipline creates a ticker: the oracles of VerifC04_limit_run assume pacing by time.Sleep (adversarial ticks would make a correct ticker-paced implementation fail); not checked")
	vExpect("HORIZON", "fail:C12: the discipline keeps pausing without forwarding the elements it was given / without closing its output")
	vExpect("BUDGET", "fail:C12: the discipline spins without forwarding the elements it was given")
	vExpect("BLOCKED", "fail:C12: the discipline blocks for ever although its input was closed")
	vTermWatch(d.output)
	vRunSpawned(0) // the goroutine New started: main
	vRunLeftoverSpawned()
	Q := e.rate.Quantity
	I := int64(e.rate.Interval)
	// C12: lossless, ordered, closed afterwards
	vAssert(len(e.out) == M, "C12: every element written is forwarded exactly once")
	for i := range e.out {
		if i < M {
			vAssert(e.out[i] == e.items[i], "C12: elements are forwarded in order, unchanged")
		}
	}
	vAssert(vIsClosed(d.output), "C12: the output is closed after the input was closed and everything was forwarded")
	// C04, stated on what a consumer can observe only (t0, the instants at which the elements left, Quantity, Interval):
	// (a) at most Quantity*(floor((t-t0)/Interval)+1) elements have left by time t. For the (i+1)-th element that is
	//     times[i]-t0 >= floor(i/Quantity)*Interval; floor(i/Quantity) = m is split into cases so that the products stay linear.
	// Both bounds are asserted for the LAST element of the run only: the discipline is causal (what it did up to an element
	// does not depend on what arrives later), and the runs with fewer elements (M = 0..5 are all instances) are its prefixes.
	obs := M <= vParam("OBS", 4) // the observable form is decided up to 4 elements (one window query of M=5 stays unknown at 120 s); the pause-count form below covers M=5
	for i := len(e.out) - 1; obs && i >= 0 && i == len(e.out)-1; i-- {
		for m := 1; m <= i; m++ {
			// m*Q <= i < (m+1)*Q  =>  ...   (an implication inside one query: no fork per case)
			need := int64(0)
			for g := 0; g < m; g++ {
				need += I
			}
			vAssert(vImp(vAnd(vLin(uint64(m), Q, 0, uint64(i), 1, 1), vLin(uint64(i), 1, 0, uint64(m)+1, Q, 0)), e.times[i]-e.t0 >= need),
				"C04: at most Quantity*(floor(t/Interval)+1) elements have left by time t after creation")
		}
	}
	// (b) a window of length W holds at most Quantity*(floor(W/Interval)+2) elements: elements i<j with
	//     floor((j-i)/Quantity) = m >= 2 are at least (m-1) Intervals apart
	for i := range e.out {
		for j := len(e.out) - 1; obs && j > i && j == len(e.out)-1; j-- {
			for m := 2; m <= j-i; m++ {
				need := int64(0)
				for g := 0; g < m-1; g++ {
					need += I
				}
				vAssert(vImp(vAnd(vLin(uint64(m), Q, 0, uint64(j-i), 1, 1), vLin(uint64(j-i), 1, 0, uint64(m)+1, Q, 0)), e.times[j]-e.times[i] >= need),
					"C04: a window of length W holds at most Quantity*(floor(W/Interval)+2) elements (burst <= 2*Quantity)")
			}
		}
	}
	// the same two bounds in the sharper form the pacing mechanism gives (batch = number of pauses requested so far):
	// batch k starts no earlier than k Intervals after creation, holds at most Quantity elements, and follows a full batch
	for i := range e.out {
		k := e.batch[i]
		lower := e.t0
		for j := 0; j < k; j++ {
			lower += I
		}
		vAssert(e.times[i] >= lower, "C04: an element of batch k leaves no earlier than k Intervals after creation")
		// position inside its batch
		pos := 0
		for j := 0; j <= i; j++ {
			if e.batch[j] == k {
				pos++
			}
		}
		vAssert(uint64(pos) <= Q, "C04: at most Quantity elements leave per batch")
		// earlier batches were full (so the count up to here is at most (k+1)*Quantity)
		if k > 0 {
			prevCnt := 0
			for j := 0; j < i; j++ {
				if e.batch[j] == k-1 {
					prevCnt++
				}
			}
			vAssert(uint64(prevCnt) == Q, "C04: a new batch starts only after a full batch")
		}
	}
	// window form: sends of batches a<b are at least (b-a-1) Intervals apart
	for i := range e.out {
		for j := i + 1; j < len(e.out); j++ {
			gap := e.batch[j] - e.batch[i] - 1
			if gap >= 1 {
				need := int64(0)
				for g := 0; g < gap; g++ {
					need += I
				}
				vAssert(e.times[j]-e.times[i] >= need, "C04: elements of batches a<b are at least (b-a-1) Intervals apart (burst <= 2*Quantity)")
			}
		}
	}
	// C12: no extra throttling
	ns := vSleepCount()
	for s := 0; s < ns; s++ {
		vAssert(vSleepArg(s) <= I, "C12: a pause never exceeds the Interval")
	}
	// a pause tops the time the batch took up to one Interval, never beyond: the batch's first element
	// was taken at rtimes[first] (or later than the batch began), its last element left at times[last]
	for s := 0; s < ns; s++ {
		first, last := -1, -1
		for i := range e.out {
			if e.batch[i] == s {
				if first < 0 {
					first = i
				}
				last = i
			}
		}
		if first >= 0 && first < len(e.rtimes) {
			vReach("pause-checked")
			vAssert(vSleepArg(s) <= I-(e.times[last]-e.rtimes[first]), "C12: a pause plus the time its batch took never exceeds one Interval (no throttling below the configured rate)")
		}
	}
	if uint64(M) < Q {
		vAssert(ns == 0, "C12: fewer than Quantity elements pass with no pause at all")
	}
	if len(e.batch) > 0 {
		last := e.batch[len(e.batch)-1]
		// last element is in batch ceil(M/Q)-1: (last)*Q < M <= (last+1)*Q
		vAssert(vLin(uint64(last), Q, 0, uint64(M), 1, 0), "C12: the last element leaves in batch ceil(N/Quantity)-1 (lower)")
		vAssert(vLin(uint64(M), 1, 0, uint64(last)+1, Q, 1), "C12: the last element leaves in batch ceil(N/Quantity)-1 (upper)")
	}
	vReach("end")
}
