package limit

import "time"

// C20 (v2 limit): happens-before check of a complete run (producer, discipline, consumer).
// gosym: mode=int
func VerifC20_v2_limit() {
	M := vParam("M", 3)
	vRaceWatch()
	vRole("creator")
	in := make(chan int, M)
	d, err := New(Opts[int]{Input: in, Limit: Rate{Interval: time.Millisecond, Quantity: 2}})
	vAssume(err == nil)
	vRole("consumer")
	vRole("producer")
	for i := 0; i < M; i++ {
		in <- vNondetInt("x")
	}
	close(in)
	vRole("creator")
	vOnBlock(d.output, func() {
		if len(d.output) == 0 {
			vDecline()
			return
		}
		vRole("consumer")
		<-d.Output()
		vRole("goroutine0")
	})
	vRunSpawned(0)
	vRole("consumer")
	for range d.Output() {
	}
	vCheckRaces()
	vReach("end")
}
