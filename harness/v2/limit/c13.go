package limit

import "time"

// C13: Rate.Recalculate / Optimize / Flatten over the whole input domain.
// big.Int is modelled as mathematical integers; all machine integers keep
// their wrap-around semantics through explicit mod 2^64 in the Int encoding.

func c13Inputs() (Rate, time.Duration) {
	I := vNondetI64("I")
	Q := vNondetU64("Q")
	m := vNondetI64("min")
	return Rate{Interval: time.Duration(I), Quantity: Q}, time.Duration(m)
}

// gosym: mode=int
func VerifC13_partition_and_errors() {
	rt, min := c13Inputs()
	r, err := rt.Recalculate(min)
	validIn := vAnd(rt.Interval > 0, rt.Quantity > 0)
	if err != nil {
		vReach("err")
		vAssert(vAnd(r.Interval == 0, r.Quantity == 0), "an error comes together with the zero Rate")
		switch err {
		case ErrIntervalNegative:
			vAssert(rt.Interval < 0, "ErrIntervalNegative only for a negative interval")
		case ErrIntervalZero:
			vAssert(rt.Interval == 0, "ErrIntervalZero only for a zero interval")
		case ErrQuantityZero:
			vAssert(rt.Quantity == 0, "ErrQuantityZero only for a zero quantity")
		case ErrMinimumIntervalNegative:
			vAssert(vAnd(validIn, min < 0), "ErrMinimumIntervalNegative only for a valid rate and negative minimum")
		case ErrConvertedIntervalZero:
			// floor(I/Q) == 0  <=>  I < Q
			vAssert(vAnd(validIn, min == 0, uint64(rt.Interval) < rt.Quantity), "ErrConvertedIntervalZero only when minimum is 0 and floor(I/Q) is 0")
		case ErrConvertedQuantityUnrepresentable:
			// floor(Q*min/I) >= 2^64  <=>  Q*min >= 2^64*I  <=>  (2^64-1)*I + (I-1) < Q*min
			I := uint64(rt.Interval)
			vAssert(vAnd(validIn, min > 0, vLin(^uint64(0), I, I-1, rt.Quantity, uint64(min), 0)),
				"ErrConvertedQuantityUnrepresentable only when the converted quantity exceeds the type")
		default:
			vAssert(false, "undocumented error value")
		}
		return
	}
	vReach("ok")
	vAssert(validIn, "no error only for a valid input rate")
	vAssert(min >= 0, "no error only for a non-negative minimum")
}

// gosym: mode=int
func VerifC13_result_valid_minimal() {
	rt, min := c13Inputs()
	vAssume(vAnd(rt.Interval > 0, rt.Quantity > 0, min >= 0))
	r, err := rt.Recalculate(min)
	if err != nil {
		return
	}
	vReach("ok")
	vAssert(r.IsValid() == nil, "the returned rate is valid")
	vAssert(r.Interval > 0, "returned interval positive")
	vAssert(r.Quantity > 0, "returned quantity positive")
	vAssert(r.Interval >= min, "returned interval is at least the minimum")
	vAssert(vOr(r.Quantity == 1, r.Interval == min), "quantity is 1 unless the interval equals the minimum")
}

// gosym: mode=int
func VerifC13_speed() {
	rt, min := c13Inputs()
	vAssume(vAnd(rt.Interval > 0, rt.Quantity > 0, min >= 0))
	r, err := rt.Recalculate(min)
	if err != nil {
		return
	}
	vReach("ok")
	I, Q := uint64(rt.Interval), rt.Quantity
	i2, q2 := uint64(r.Interval), r.Quantity
	// faster by less than one nanosecond of its interval: q'/(i'+1) < Q/I
	vAssert(vLin(q2, I, 0, Q, i2, Q), "not faster than the original by a nanosecond of interval or more")
	// slower by less than one element per interval: (q'+1)/i' > Q/I
	vAssert(vLin(Q, i2, 0, q2, I, I), "not slower than the original by an element per interval or more")
}

// gosym: mode=int
func VerifC13_must_fail() {
	// inputs for which no answer exists must produce an error, not a bogus rate
	rt, min := c13Inputs()
	r, err := rt.Recalculate(min)
	_ = r
	vAssert(vImp(rt.Interval <= 0, err != nil), "non-positive interval is rejected")
	vAssert(vImp(rt.Quantity == 0, err != nil), "zero quantity is rejected")
	vAssert(vImp(min < 0, err != nil), "negative minimum is rejected")
	vReach("end")
}

// gosym: mode=int
func VerifC13_optimize_flatten() {
	rt, _ := c13Inputs()
	a, ea := rt.Optimize()
	b, eb := rt.Recalculate(OptimizationInterval)
	vAssert(vAnd(a.Interval == b.Interval, a.Quantity == b.Quantity, ea == eb), "Optimize == Recalculate(OptimizationInterval)")
	c, ec := rt.Flatten()
	d, ed := rt.Recalculate(0)
	vAssert(vAnd(c.Interval == d.Interval, c.Quantity == d.Quantity, ec == ed), "Flatten == Recalculate(0)")
	vAssert(OptimizationInterval == 10*time.Millisecond, "documented optimisation interval")
	vReach("end")
}
