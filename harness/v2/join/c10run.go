package join

import "time"

// C10 (v2 join), bounded runs with a PERIODIC ticker and timed arrivals: the real
// New + main; the ticker delivers a tick at the first grid point after the previous
// one was taken (+ jitter <= lambda); elements are offered by the producer at
// arbitrary non-decreasing instants; every clock reading and every wake-up is late by
// at most lambda; the consumer is always ready. For every delivered slice the wait of
// its oldest element is at most Timeout + interval + c*lambda, and at every tick no
// buffered element is overdue by more than that.

// gosym: mode=int
func VerifC10_run() {
	M := vParam("M", 2)
	inacc := uint(vParam("inacc", 100))
	C := int64(vParam("c", 4))
	vPreciseTime()
	lam := vNondetI64("lambda")
	vAssume(vAnd(lam >= 0, lam < 1<<40))
	vSetLatency(lam)
	T := time.Duration(vNondetI64("timeout"))
	vAssume(vAnd(T > 0, T < 1<<50))
	in := make(chan int)
	d, err := New(Opts[int]{Input: in, JoinSize: 1000, Timeout: T, TimeoutInaccuracy: inacc})
	vAssume(err == nil)
	tau := int64(d.interruptInterval)
	bound := int64(T) + tau + C*lam
	prev := vNow()
	for i := 0; i < M; i++ {
		a := vNondetI64("arrival")
		vAssume(vAnd(a >= prev, a < 1<<60))
		prev = a
		vParkAt(in, vNondetInt("x"), a)
	}
	vSink(d.output)
	var accept []int64
	vOnRecv(in, func(v any, ok bool) {
		if ok {
			accept = append(accept, vNow())
		}
	})
	delivered := 0
	vOnSend(d.output, func(v any) {
		s := v.([]int)
		vAssert(vNow()-accept[delivered] <= bound, "C10: no element stays inside longer than Timeout + interrupt interval + c*latency (consumer ready)")
		delivered += len(s)
		vReach("delivered")
	})
	vReplace("isTimeouted", func(dd *Discipline[int]) bool {
		r := dd.isTimeouted()
		if !r && delivered < len(accept) {
			vAssert(vNow()-accept[delivered] <= bound, "C10: at a tick that does not flush, no buffered element is overdue")
		}
		return r
	})
	vTickBudget(vParam("ticks", 4))
	vExpect("TICK-HORIZON", "ok")
	vRunSpawned(0)
}
