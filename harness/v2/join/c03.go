package join

import "time"

// C03 / C08 / C09 (v2 join): the real New + main run to completion on M symbolic
// elements, with the ticker, the consumer and the release signal adversarial.

type vJoinEnv struct {
	d        *Discipline[int]
	items    []int
	emitted  []int   // element values as they were at the instant of delivery
	lens     []int   // length of every delivered slice
	times    []int64 // clock at every delivery
	outs     [][]int // the delivered slices themselves (consumer keeps them)
	awaiting bool    // no-copy: a slice is out and not released yet
	t0       int64
	closedAt int // number of deliveries when the input was seen closed (-1 unknown)
	acc       []int64 // acceptance time of every element inside the discipline, oldest first
	mustFlush bool    // a tick was taken at least Timeout after acc[0]: a delivery must come next
}

func vJoinSetup(timed bool) *vJoinEnv {
	JS := vParam("JS", 2)
	M := vParam("M", 3)
	e := &vJoinEnv{}
	// either a roomy buffered input and an eager consumer, or an unbuffered input (so the output
	// buffer holds a single slice) and a LAZY consumer that takes a slice only when the discipline is
	// blocked on the full output
	lazy := vChoose("lazy-consumer", 2) == 1
	capIn := M + 1
	if lazy {
		capIn = 0
	}
	in := make(chan int, capIn)
	for i := 0; i < M; i++ {
		x := vNondetInt("x")
		e.items = append(e.items, x)
		if lazy {
			vPark(in, x)
		} else {
			in <- x
		}
	}
	if lazy {
		vOnBlock(in, func() {
			if vIsClosed(in) {
				vDecline()
				return
			}
			close(in)
		})
	} else {
		close(in)
	}
	opts := Opts[int]{Input: in, JoinSize: uint(JS), NoCopy: vChoose("nocopy", 2) == 1}
	if timed {
		opts.Timeout = time.Duration(vNondetI64("timeout"))
		vAssume(opts.Timeout > 0)
		opts.TimeoutInaccuracy = []uint{0, 25, 50, 100}[vChoose("inacc", 4)] // 0: default 25; 100: the ticker period equals the Timeout
	}
	e.t0 = vNow()
	d, err := New(opts)
	vAssume(err == nil)
	e.d = d
	if lazy {
		vOnBlock(d.output, func() {
			if len(d.output) == 0 {
				vDecline()
				return
			}
			<-d.output
		})
	} else {
		vSink(d.output)
	}
	if timed {
		vOnRecv(in, func(v any, ok bool) {
			vAssert(!e.mustFlush, "C10: a tick taken at least Timeout after the oldest buffered element was accepted flushes the buffer (an arrival never postpones the deadline of what is already buffered)")
			if ok {
				vAdvance()
				e.acc = append(e.acc, vNow())
			}
		})
		vOnTick(func() {
			vAssert(!e.mustFlush, "C10: a tick taken at least Timeout after the oldest buffered element was accepted flushes the buffer (an arrival never postpones the deadline of what is already buffered)")
			if len(e.acc) > 0 && vNow()-e.acc[0] >= int64(opts.Timeout) {
				e.mustFlush = true
			}
		})
	}
	vOnSend(d.output, func(v any) {
		s := v.([]int)
		e.mustFlush = false
		if len(s) <= len(e.acc) {
			e.acc = e.acc[len(s):]
		} else {
			e.acc = nil
		}
		vAssert(len(s) > 0, "C03: no output slice is empty")
		vAssert(len(s) <= JS, "C03: a join slice never has more than JoinSize elements")
		vAssert(!e.awaiting, "C08: no further output is produced before the previous no-copy slice was released")
		if opts.NoCopy {
			e.awaiting = true
			vWatch(s)
		} else {
			vAssert(!vSameArray(s, d.join), "C08: in copy mode the delivered slice does not share memory with the accumulation buffer")
			for _, o := range e.outs {
				vAssert(!vSameArray(s, o), "C08: in copy mode the delivered slice shares no memory with any other output")
			}
			vWatch(s)
		}
		e.outs = append(e.outs, s)
		e.lens = append(e.lens, len(s))
		vAdvance() // real time passes between the discipline's own clock readings (e.g. while it was blocked on this send)
		e.times = append(e.times, vNow())
		for _, x := range s {
			e.emitted = append(e.emitted, x)
		}
		if !opts.NoCopy {
			// the consumer may scribble over its copy at any time
			vHavocSlice(s)
		}
	})
	vOnBlock(d.release, func() {
		// the consumer is done with the slice: it has seen it unchanged, and signals release
		vAssert(e.awaiting, "C08: the discipline waits for a release only after a no-copy delivery")
		vAssert(vWatchHits() == 0, "C08: a no-copy slice is not modified between delivery and release")
		vUnwatch(e.outs[len(e.outs)-1])
		e.awaiting = false
		vPark(d.release, struct{}{})
	})
	vTickBudget(vParam("T", 2))
	vExpect("TICK-HORIZON", "ok")
	return e
}

func (e *vJoinEnv) checkStream() {
	vAssert(len(e.emitted) == len(e.items), "C03: the output carries exactly as many elements as were written")
	for i := range e.items {
		if i < len(e.emitted) {
			vAssert(e.emitted[i] == e.items[i], "C03: concatenated output equals the input stream (no loss, duplication or reordering)")
		}
	}
	vAssert(vIsClosed(e.d.output), "C03: the output is closed after the input was closed and flushed")
	vAssert(vWatchHits() == 0, "C03/C08: the discipline never writes into a slice it has delivered (a consumer that keeps the slices until the output closes still reads exactly the input stream)")
}

// gosym: mode=int
func VerifC03_join_untimed() {
	e := vJoinSetup(false)
	JS := vParam("JS", 2)
	vTermWatch(e.d.output)
	vRunSpawned(0) // the goroutine New started: main
	vRunLeftoverSpawned()
	e.checkStream()
	for k := 0; k+1 < len(e.lens); k++ {
		vAssert(e.lens[k] == JS, "C09: without a timeout every slice except the last has exactly JoinSize elements")
	}
	vReach("end")
}

// gosym: mode=int
func VerifC03_join_timed() {
	e := vJoinSetup(true)
	JS := vParam("JS", 2)
	vTermWatch(e.d.output)
	vRunSpawned(0) // the goroutine New started: main
	vRunLeftoverSpawned()
	e.checkStream()
	T := int64(e.d.opts.Timeout)
	// a non-maximal slice that is not the final one comes no earlier than Timeout after the previous delivery / creation
	for k := 0; k+1 < len(e.lens); k++ {
		if e.lens[k] < JS {
			prev := e.t0
			if k > 0 {
				prev = e.times[k-1]
			}
			vAssert(e.times[k]-prev >= T, "C09: a short slice (not the last) is delivered no earlier than Timeout after the previous delivery")
		}
	}
	vAssert(vTickersRunning() == 0, "C19: no ticker of the discipline is left running when main returns")
	vReach("end")
}
