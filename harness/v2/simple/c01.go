package simple

import (
	"github.com/akramarenkov/cqos/v2/priority"
	"github.com/akramarenkov/cqos/v2/priority/divider"
	"github.com/akramarenkov/cqos/v2/priority/types"
)

// C01 / C02 / C07 / C19 (v2 simple): New starts exactly HandlersQuantity handler
// goroutines (plus the scheduling goroutine of the wrapped discipline); every
// handler, on every path, does: receive -> Handle(that item) -> Release(that item's
// priority), and returns when the output is closed.

// gosym: mode=int
func VerifC01_simple_handler() {
	H := vParam("H", 2)
	K := vParam("K", 3)
	in := make(chan int, 1)
	type ev struct {
		kind int // 0 handle, 1 recv, 2 release
		item int
		prio uint
	}
	var log []ev
	handle := func(item int) { log = append(log, ev{kind: 0, item: item}) }
	s, err := New(Opts[int]{Divider: divider.Fair, Handle: handle, HandlersQuantity: uint(H), Inputs: map[uint]<-chan int{1: in}})
	vAssume(err == nil)
	vAssert(vSpawnCount() == 1+H, "C01/C19: New starts the scheduling goroutine and exactly HandlersQuantity handlers")
	vAssert(vSpawnCount() >= 2, "C07: at least one handler runs (otherwise a delivered item is never released and the discipline never terminates)")
	if vSpawnCount() != 1+H {
		return // the rest of the harness runs the H handlers one by one
	}
	for i := 1; i <= H; i++ {
		vAssert(vSpawnedIs(i, "handler"), "C19: the goroutines started by the simplified discipline are handlers")
	}
	out := s.priority.Output()
	var items []int
	var prios []uint
	for k := 0; k < K; k++ {
		it, p := vNondetInt("item"), vNondetUint("prio")
		items, prios = append(items, it), append(prios, p)
		vPark(out, types.Prioritized[int]{Item: it, Priority: p})
	}
	vOnChanEvent(func(kind int, ch any, v any, ok bool) {
		if kind == 1 {
			if ok {
				log = append(log, ev{kind: 1, item: v.(types.Prioritized[int]).Item, prio: v.(types.Prioritized[int]).Priority})
			}
			return
		}
		log = append(log, ev{kind: 2, prio: v.(uint)})
	})
	// the output is closed by the discipline once everything was released (C07); a handler must then return
	vOnBlock(out, func() { vCloseChan(out) })
	vSinkWhenFull() // the scheduling goroutine drains the feedback channel
	vRunSpawned(1 + vChoose("which", H))
	vReach("handler returned")
	for i := 1; i <= H; i++ {
		vRunSpawned(i) // the other handlers: the output is closed, each returns at once
	}
	vAssert(true, "C19: every handler returns once the output is closed")
	vAssert(len(log) == 3*K, "C02: every received item leads to exactly one Handle call and one Release")
	for k := 0; k < K; k++ {
		if 3*k+2 < len(log) {
			a, b, c := log[3*k], log[3*k+1], log[3*k+2]
			vAssert(vAnd(a.kind == 1, a.item == items[k], a.prio == prios[k]), "C02: items are taken in the order they were handed out")
			vAssert(vAnd(b.kind == 0, b.item == items[k]), "C02: Handle is invoked exactly once per item, with that item")
			vAssert(vAnd(c.kind == 2, c.prio == prios[k]), "C01: the handler releases exactly the priority of the item it handled, after Handle returned")
		}
	}
}

// C01 (v2 simple), constructor: for every number of inputs N and every requested HandlersQuantity H the
// simplified constructor accepts exactly the configurations the wrapped constructor accepts FOR THAT H, and
// an accepted discipline runs exactly H handlers - never more concurrent Handle calls than the caller asked for
// (H symbolic, 0..N+2: below, equal to and above the number of inputs; Fair).

// gosym: mode=int
func VerifC01_simple_new() {
	N := vParam("N", 2)
	Hs := vNondetUint("H") // symbolic: the solver picks the requested quantity, the handler loop forks on it
	vAssume(Hs <= uint(N+2))
	dv := divider.Fair
	mk := func() map[uint]<-chan int {
		ins := map[uint]<-chan int{}
		for i := 1; i <= N; i++ {
			ins[uint(i)] = make(chan int, 1)
		}
		return ins
	}
	_, errWrapped := priority.New(priority.Opts[int]{Divider: dv, HandlersQuantity: Hs, Inputs: mk()})
	before := vSpawnCount()
	_, err := New(Opts[int]{Divider: dv, Handle: func(int) {}, HandlersQuantity: Hs, Inputs: mk()})
	vReach("constructed")
	vAssert((err == nil) == (errWrapped == nil), "C01: the simplified constructor accepts a configuration exactly when the wrapped constructor accepts it for the requested HandlersQuantity")
	if err == nil {
		vAssert(uint(vSpawnCount()-before) == 1+Hs, "C01/C19: New starts the scheduling goroutine and exactly HandlersQuantity handlers")
		for i := 1; i < vSpawnCount()-before; i++ {
			vAssert(vSpawnedIs(before+i, "handler"), "C19: the goroutines started by the simplified discipline are handlers")
		}
	} else {
		vAssert(vSpawnCount() == before, "C19: a rejected configuration starts no goroutine")
	}
}
