package priority

import (
	"github.com/akramarenkov/cqos/v2/priority/divider"
	"github.com/akramarenkov/cqos/v2/priority/types"
)

// Bounded runs through the public constructor: New + the real main() to completion,
// with all monitors on. These are the REACHABLE witnesses for the step obligations
// (the representation invariant is asserted at every round head, so an invariant
// that is too strong shows up here) and the FIFO / completeness check of C02.

// gosym: mode=int
func VerifC02_run() { c02Run(divider.Fair) }

// the same run with Rate under uninterpreted float arithmetic (over-approximating: a counterexample is a candidate)
// gosym: mode=int fp=uf
func VerifC02_run_rate() { c02Run(divider.Rate) }

func c02Run(dv divider.Divider) {
	n := vParam("n", 2)
	H := uint(vParam("H", 2))
	J := vParam("J", 2)
	e := &vEnv{n: n, faultAt: -1, H: H}
	vE = e
	all := make([]uint, 0, n)
	for i := 0; i < n; i++ {
		all = append(all, vNondetUint("p"))
	}
	vDistinct(all...)
	for i := 1; i < n; i++ {
		vAssume(all[i-1] > all[i])
	}
	e.ps = all
	inputs := map[uint]<-chan int{}
	var written [][]int
	var tags []uint
	total := 0
	for i := 0; i < n; i++ {
		capacity := vParam("JA", J) + 1
		if vChoose("unbuffered", 2) == 1 {
			capacity = 0
		}
		ch := make(chan int, capacity)
		e.ins = append(e.ins, ch)
		inputs[e.ps[i]] = ch
		var w []int
		Ji := J
		if i == 0 {
			Ji = vParam("JA", J) // the highest priority may hold more items than the others (JA > J: one busy input next to idle ones)
		}
		total += Ji
		for k := 0; k < Ji; k++ {
			u := vNondetUint("item")
			tags = append(tags, u)
			w = append(w, int(u))
			if capacity > 0 {
				ch <- int(u)
			} else {
				vPark(ch, int(u))
			}
		}
		written = append(written, w)
		if capacity > 0 {
			close(ch)
		} else {
			ch := ch
			vOnBlock(ch, func() {
				if vIsClosed(ch) {
					vDecline()
					return
				}
				close(ch)
			})
		}
	}
	vDistinct(tags...)
	d, err := New(Opts[int]{Divider: dv, HandlersQuantity: H, Inputs: inputs})
	if err != nil {
		vExpect("NOREACH", "ok")
		return
	}
	e.d = d
	e.G = make([]uint, n)
	vSink(d.output)
	e.relaxed = true // a run through New judges C02 by the stream a reader sees; the read-then-write mechanism is a step obligation
	e.monitors()
	var outLog []types.Prioritized[int]
	// handlers: release in-flight items when the discipline waits, in any order
	// handlers that finish together: further releases land in the buffer before the discipline gets to read the earlier
	// ones. e.G counts what was handed out minus what the discipline has READ, so what is still buffered is subtracted:
	// pushed = priority indexes of all releases issued so far, of which the first vRecvCount(feedback) have been read.
	var pushed []int
	moreReleases := func() {
		for len(d.feedback) < cap(d.feedback) && vChoose("another-release", 2) == 1 {
			j := vChoose("release", e.n)
			queued := uint(0)
			for _, q := range pushed[vRecvCount(d.feedback):] {
				if q == j {
					queued++
				}
			}
			vAssume(e.G[j] >= queued+1)
			pushed = append(pushed, j)
			d.feedback <- e.ps[j]
		}
	}
	vOnBlock(d.feedback, func() {
		total := vSumAssert("in flight", e.G...)
		vAssert(total > 0, "C06: the discipline blocks on the feedback channel only while some item is in flight (no deadlock)")
		if total == 0 {
			vDecline() // nothing left to release: the wait can never end (BLOCKED is a violation of C06 / C07 below)
			return
		}
		i := vChoose("release", e.n)
		vAssume(e.G[i] >= 1)
		d.feedback <- e.ps[i]
		pushed = append(pushed, i)
		moreReleases()
	})
	// releases may also arrive between the discipline's reads of the feedback channel (while it computes the next allotment)
	vReplace("calcTactic", func(dd *Discipline[int]) (bool, error) {
		moreReleases()
		return dd.calcTactic()
	})
	vReplace("getLimitedFeedback", func(dd *Discipline[int]) {
		if len(dd.feedback) == 0 && vChoose("late-release", 2) == 1 {
			i := vChoose("release", e.n)
			vAssume(e.G[i] >= 1)
			dd.feedback <- e.ps[i]
			pushed = append(pushed, i)
		}
		dd.getLimitedFeedback()
	})
	vReplace("base", func(dd *Discipline[int]) (uint, error) {
		e.assertHead("round head (run from New)")
		var st []uint
		for _, p := range e.ps {
			st = append(st, dd.strategic[p])
			vAssert(dd.strategic[p] >= 1, "constructor invariant: every share >= 1")
		}
		vAssert(vSumAssert("strategic", st...) == e.H, "constructor invariant: shares sum to HandlersQuantity")
		return dd.base()
	})
	vOnClose(d.output, func() {
		g := vSumAssert("in flight at close", e.G...)
		vAssert(g == 0, "C07: the output is closed only after every delivered item was released")
	})
	vTickBudget(6)
	vFairTicks()
	vSleepBudget(3)
	vExpect("HORIZON", "ok")
	vExpect("TICK-HORIZON", "ok")
	vExpect("BLOCKED", "fail:C06/C07: the discipline blocks for ever although releases are supplied whenever something is in flight and every input gets closed")
	vTermWatch(d.output, d.err)
	vRunSpawned(0) // the goroutine New started: main
	vRunLeftoverSpawned()
	vReach("terminated")
	for vLogLen(d.output) > 0 {
		outLog = append(outLog, vLogTake(d.output).(types.Prioritized[int]))
	}
	vAssert(len(outLog) == total, "C02: everything written before the close is delivered exactly once")
	// FIFO per priority: the output restricted to p equals what was written to p's channel
	for i := 0; i < n; i++ {
		k := 0
		for _, x := range outLog {
			if x.Priority == e.ps[i] {
				vAssert(k < len(written[i]) && x.Item == written[i][k], "C02: items of one priority leave in the order they were written, tagged with that priority")
				k++
			}
		}
		vAssert(k == len(written[i]), "C02: every item of the priority was delivered")
	}
	vAssert(vAnd(vIsClosed(d.output), vIsClosed(d.err), len(d.err) == 0), "C07: normal termination closes output and err without an error value")
	vAssert(vTickersRunning() == 0, "C19: the interrupter ticker is not left running when main returns")
}

// C15 / C19: a run from New in which the divider (a sum-preserving function up to then) breaks the
// sum rule at one later call. Nobody reads Err() before Output() is closed (reading it afterwards is
// the documented pattern): the discipline must stop handing out, wait for the releases, close its
// channels and leave exactly ErrDividerBad on Err().
// gosym: mode=int
func VerifC15_run_fault() {
	n := vParam("n", 2)
	H := uint(vParam("H", 2))
	J := vParam("J", 1)
	e := &vEnv{n: n, faultAt: -1, H: H, honest: true}
	vE = e
	all := make([]uint, 0, n+1)
	for i := 0; i < n+1; i++ {
		all = append(all, vNondetUint("p"))
	}
	vDistinct(all...)
	for i := 1; i < n; i++ {
		vAssume(all[i-1] > all[i])
	}
	e.ps, e.foreign = all[:n], all[n]
	inputs := map[uint]<-chan int{}
	for i := 0; i < n; i++ {
		ch := make(chan int, J+1)
		e.ins = append(e.ins, ch)
		inputs[e.ps[i]] = ch
		for k := 0; k < J; k++ {
			ch <- vNondetInt("item")
		}
		if vChoose("closed", 2) == 1 {
			close(ch)
		}
	}
	e.faultAt = 1 + vChoose("fault", 3) // call 0 is the constructor's division
	d, err := New(Opts[int]{Divider: vStubDivider, HandlersQuantity: H, Inputs: inputs})
	if err != nil {
		vExpect("NOREACH", "ok")
		return
	}
	e.d = d
	e.G = make([]uint, n)
	vSink(d.output)
	e.relaxed = true // a run through New judges C02 by the stream a reader sees; the read-then-write mechanism is a step obligation
	e.monitors()
	vOnBlock(d.feedback, func() {
		if vSumAssert("in flight", e.G...) == 0 {
			vDecline() // nothing left to release
			return
		}
		i := vChoose("release", e.n)
		vAssume(e.G[i] >= 1)
		d.feedback <- e.ps[i]
	})
	vTickBudget(6)
	vFairTicks()
	vSleepBudget(3)
	vExpect("HORIZON", "ok")
	vExpect("TICK-HORIZON", "ok")
	vExpect("BLOCKED", "fail:C15/C19: after a divider fault the discipline terminates once the in-flight items are released, whether or not Err() is being read")
	vTermWatch(d.output, d.err)
	vRunSpawned(0)
	vRunLeftoverSpawned()
	vReach("terminated")
	if e.faultSeen {
		vAssert(e.sendsAfterFault == 0, "C15: nothing is handed out after a divider fault")
		vAssert(vAnd(vIsClosed(d.output), vIsClosed(d.err)), "C15/C19: error termination closes output and err")
		vAssert(len(d.err) == 1, "C15: exactly one error value is left on Err()")
		v, ok := <-d.err
		vAssert(vAnd(ok, v == ErrDividerBad), "C15: the reported error is ErrDividerBad")
		g := vSumAssert("in flight at termination", e.G...)
		vAssert(g == 0, "C15: the discipline terminates only after the in-flight items were released")
		vReach("fault")
	}
	vAssert(vTickersRunning() == 0, "C19: the interrupter ticker is not left running when main returns")
}

// C06 / C07: a run from New in which some inputs stay open and idle for a while: their writer delivers
// (or not) and closes at some later moment, possibly after every other input was closed and drained.
// The discipline must keep polling them: everything written is delivered and the discipline terminates.
// gosym: mode=int
func VerifC07_run_late_close() {
	n := vParam("n", 2)
	H := uint(vParam("H", 2))
	e := &vEnv{n: n, faultAt: -1, H: H}
	vE = e
	all := make([]uint, 0, n)
	for i := 0; i < n; i++ {
		all = append(all, vNondetUint("p"))
	}
	vDistinct(all...)
	for i := 1; i < n; i++ {
		vAssume(all[i-1] > all[i])
	}
	e.ps = all
	inputs := map[uint]<-chan int{}
	late := make([]bool, n)   // buffered input whose writer acts later
	closed := make([]bool, n) // the writer has closed the channel
	supplied := 0
	for i := 0; i < n; i++ {
		capacity := 2
		kind := vChoose("kind", 3) // 0: unbuffered, closed as soon as the discipline waits on it; 1: buffered, closed at once; 2: buffered, late writer
		if kind == 0 {
			capacity = 0
		}
		ch := make(chan int, capacity)
		e.ins = append(e.ins, ch)
		inputs[e.ps[i]] = ch
		switch kind {
		case 0:
			if vChoose("item", 2) == 1 {
				vPark(ch, vNondetInt("item"))
				supplied++
			}
			ch := ch
			vOnBlock(ch, func() {
				if vIsClosed(ch) {
					vDecline()
					return
				}
				close(ch)
			})
			closed[i] = true // (will be, at the latest when the discipline waits on it)
		case 1:
			if vChoose("item", 2) == 1 {
				ch <- vNondetInt("item")
				supplied++
			}
			close(ch)
			closed[i] = true
		case 2:
			late[i] = true
		}
	}
	d, err := New(Opts[int]{Divider: divider.Fair, HandlersQuantity: H, Inputs: inputs})
	if err != nil {
		vExpect("NOREACH", "ok")
		return
	}
	e.d = d
	e.G = make([]uint, n)
	vSink(d.output)
	e.relaxed = true // a run through New judges C02 by the stream a reader sees; the read-then-write mechanism is a step obligation
	e.monitors()
	vOnBlock(d.feedback, func() {
		if vSumAssert("in flight", e.G...) == 0 {
			vDecline()
			return
		}
		i := vChoose("release", e.n)
		vAssume(e.G[i] >= 1)
		d.feedback <- e.ps[i]
	})
	// between rounds: a late writer may write its item and close now
	vReplace("getLimitedFeedback", func(dd *Discipline[int]) {
		for i := range late {
			if late[i] && !closed[i] && vChoose("writer-acts-now", 2) == 1 {
				if vChoose("item", 2) == 1 {
					e.ins[i] <- vNondetInt("item")
					supplied++
				}
				close(e.ins[i])
				closed[i] = true
			}
		}
		dd.getLimitedFeedback()
	})
	vTickBudget(8)
	vFairTicks()
	vSleepBudget(vParam("K", 3))
	vExpect("HORIZON", "ok") // a late writer that has not acted yet: the discipline idles (correct)
	vExpect("TICK-HORIZON", "ok")
	vExpect("BLOCKED", "fail:C06/C07: the discipline blocks for ever while an input is still open (it must keep polling) or after everything was closed and released")
	vTermWatch(d.output, d.err)
	vRunSpawned(0)
	vRunLeftoverSpawned()
	vReach("terminated")
	for i := range closed {
		vAssert(closed[i], "C07: the discipline terminates only after every input has been closed")
	}
	vAssert(e.sends == supplied, "C02/C07: at termination everything written before the closes was delivered exactly once")
	vAssert(vAnd(vIsClosed(d.output), vIsClosed(d.err), len(d.err) == 0), "C07: normal termination closes output and err without an error value")
}
