package priority

// C07 / C15 / C19 / C06-P1 (v2): the real loop() and main() run from an arbitrary
// between-rounds state, with an adversarial environment:
//   - every input is open / closed-with-backlog / already observed drained,
//   - releases arrive before the run, between rounds, and whenever the discipline
//     blocks on the feedback channel (only for items that are in flight),
//   - the divider is an arbitrary function that may break the sum rule at a chosen call.

type vLoopCfg struct {
	closedIn []bool
	supplied []int
}

func vLoopSetup(n int) (*vEnv, *vLoopCfg) {
	ub := vChoose("unbuffered", n+1) - 1
	e := vArbitraryF(n, ub, true)
	e.honest = true
	d := e.d
	cfg := &vLoopCfg{closedIn: make([]bool, n), supplied: make([]int, n)}
	J := vParam("J", 1)
	for i, p := range e.ps {
		in := d.inputs[p]
		switch vChoose("input", 3) {
		case 0: // open, j items waiting; stays open for ever
			in.Drained = false
			cfg.supplied[i] = vChoose("items", J+1)
			e.preload(i, cfg.supplied[i])
		case 1: // closed with backlog, not yet observed
			in.Drained = false
			cfg.supplied[i] = vChoose("items", J+1)
			e.preload(i, cfg.supplied[i])
			close(e.ins[i])
			cfg.closedIn[i] = true
		case 2: // observed closed and empty earlier
			in.Drained = true
			close(e.ins[i])
			cfg.closedIn[i] = true
		}
		d.inputs[p] = in
	}
	e.assumeHead()
	e.assumeConstructed()
	// bound the release-driven loops: at most B items in flight at the start
	B := uint(vParam("B", 2))
	vAssume(vSumAssume(e.G...) <= B)
	// stale counters of the previous round must be consistent with what prioritize left behind: nothing is assumed
	e.feed(vChoose("tokens", 2))
	vOnBlock(d.feedback, func() {
		total := vSumAssert("in flight", e.G...)
		vAssert(total > 0, "C06: the discipline blocks on the feedback channel only while some item is in flight (no deadlock)")
		i := vChoose("release", e.n)
		vAssume(e.G[i] >= 1)
		// the token may not already be queued
		d.feedback <- e.ps[i]
	})
	vReplace("getLimitedFeedback", func(dd *Discipline[int]) {
		// between rounds a handler may have released an in-flight item that is not queued yet
		if len(dd.feedback) == 0 && vChoose("late-release", 2) == 1 {
			i := vChoose("release", e.n)
			vAssume(e.G[i] >= 1)
			dd.feedback <- e.ps[i]
		}
		dd.getLimitedFeedback()
	})
	vReplace("base", func(dd *Discipline[int]) (uint, error) {
		e.assertHead("loop head")
		return dd.base()
	})
	vTickBudget(4)
	vSleepBudget(vParam("K", 2))
	vExpect("HORIZON", "ok")
	vExpect("TICK-HORIZON", "ok")
	return e, cfg
}

func (e *vEnv) allDelivered(cfg *vLoopCfg) bool {
	ok := true
	for i := range e.ps {
		ok = vAnd(ok, cfg.closedIn[i], len(e.ins[i]) == 0, vParkedLen(e.ins[i]) == 0, e.d.inputs[e.ps[i]].Drained)
	}
	return ok
}

// gosym: mode=int
func VerifC07_loop() {
	n := vParam("n", 1)
	e, cfg := vLoopSetup(n)
	e.faultAt = vChoose("fault", 3) - 1
	err := e.d.loop()
	// whatever the reason for returning: everything handed out was released (deferred waitZeroActual)
	inflight := vSumAssert("in flight at return", e.G...)
	vAssert(inflight == 0, "C07: loop returns only after every delivered item was released")
	e.assertHead("loop return")
	if err != nil {
		vReach("error")
		vAssert(e.faultSeen, "C07: no error without a divider fault")
		vAssert(err == ErrDividerBad, "C15: a divider fault is reported as ErrDividerBad")
		vAssert(e.sendsAfterFault == 0, "C15: nothing is handed out after a divider fault")
		return
	}
	vReach("normal")
	vAssert(!e.faultSeen, "C15: a divider fault in a round makes loop return an error")
	vAssert(e.allDelivered(cfg), "C07: normal termination only when every input is closed, empty and marked drained")
	total := 0
	for i := range e.ps {
		total += cfg.supplied[i]
	}
	vAssert(e.sends == total, "C02: at normal termination everything written before the close was handed out exactly once")
}

// gosym: mode=int
func VerifC07_main() {
	n := vParam("n", 1)
	e, cfg := vLoopSetup(n)
	e.faultAt = vChoose("fault", 3) - 1
	d := e.d
	closes := 0
	vOnClose(d.output, func() {
		closes++
		g := vSumAssert("in flight at close", e.G...)
		vAssert(g == 0, "C07: the output is closed only after every delivered item was released")
		vAssert(vOr(e.faultSeen, e.allDelivered(cfg)), "C07: the output is closed only after all inputs are closed and drained (normal mode)")
	})
	vOnClose(d.err, func() {
		g := vSumAssert("in flight at close", e.G...)
		vAssert(g == 0, "C07: the error channel is closed only after every delivered item was released")
	})
	vTermWatch(d.output, d.err)
	d.main()
	vReach("returned")
	vAssert(vAnd(vIsClosed(d.output), vIsClosed(d.err), vIsClosed(d.feedback)), "C07/C19: main closes output, err and feedback")
	vAssert(vTickersRunning() == 0, "C19: the interrupter ticker is not left running when main returns")
	if e.faultSeen {
		vAssert(len(d.err) == 1, "C15: exactly one error value is reported")
		v, ok := <-d.err
		vAssert(vAnd(ok, v == ErrDividerBad), "C15: the reported error is ErrDividerBad")
	} else {
		vAssert(len(d.err) == 0, "C07: no error value in normal mode (the closed channel yields nil)")
	}
	_ = closes
}

// T4: promptness — all inputs drained, g items in flight: loop returns after exactly g
// feedback receives, without sleeping
// gosym: mode=int
func VerifC07_prompt() {
	n := vParam("n", 1)
	e := vArbitrary(n)
	d := e.d
	for i, p := range e.ps {
		in := d.inputs[p]
		in.Drained = true
		d.inputs[p] = in
		close(e.ins[i])
	}
	e.assumeHead()
	B := uint(vParam("B", 2))
	g := vSumAssume(e.G...)
	vAssume(g <= B)
	e.assumeConstructed()
	e.honest = true
	released := 0
	vOnBlock(d.feedback, func() {
		i := vChoose("release", e.n)
		vAssume(e.G[i] >= 1)
		released++
		d.feedback <- e.ps[i]
	})
	vSleepBudget(0)
	err := d.loop()
	vAssert(err == nil, "C07: no error in normal mode")
	vAssert(uint(vRecvCount(d.feedback)) == g, "C07: with all inputs drained loop returns after exactly as many releases as items were in flight")
	vAssert(vSleepCount() == 0, "C07: termination is prompt (no idle sleep) once inputs are drained")
	vReach("end")
}
