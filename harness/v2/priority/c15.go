package priority

import (
	"github.com/akramarenkov/cqos/v2/priority/divider"
	"github.com/akramarenkov/cqos/v2/priority/internal/common"
)

// C15 / C05-init / C06-P0 (v2): the constructor.

// gosym: mode=int
func VerifC15_new() { c15New(vChoose("divider", 3)) } // arbitrary (possibly faulty) stub, Fair, arbitrary sum-preserving stub: exact

// Rate with uninterpreted float arithmetic (whatever values its float expressions take): over-approximating
// gosym: mode=int fp=uf
func VerifC15_new_rate() { c15New(3) }

func c15New(kind int) {
	n := vParam("n", 2)
	e := &vEnv{n: n, faultAt: -1}
	vE = e
	e.H = vNondetUint("H")
	all := make([]uint, 0, n+1)
	for i := 0; i < n; i++ {
		all = append(all, vNondetUint("p"))
	}
	all = append(all, vNondetUint("foreign"))
	vDistinct(all...)
	for i := 1; i < n; i++ {
		vAssume(all[i-1] > all[i])
	}
	e.ps, e.foreign = all[:n], all[n]
	// the Inputs map is filled in an arbitrary order
	inputs := map[uint]<-chan int{}
	used := make([]bool, n)
	for i := 0; i < n; i++ {
		k := vChoose("perm", n-i)
		for j := 0; j < n; j++ {
			if used[j] {
				continue
			}
			if k == 0 {
				used[j] = true
				ch := make(chan int, 1)
				e.ins = append(e.ins, ch) // in insertion order
				inputs[e.ps[j]] = ch
				break
			}
			k--
		}
	}
	var dv divider.Divider
	switch kind {
	case 0: // arbitrary function, may break the sum rule at the constructor call
		dv = vStubDivider
		e.faultAt = vChoose("fault", 2) - 1
	case 1:
		dv = divider.Fair
	case 2: // arbitrary sum-preserving divider that creates an entry for every listed priority
		dv = vStubDivider
		e.honest = true
	case 3: // Rate with uninterpreted float arithmetic: whatever values its float expressions take
		dv = divider.Rate
	}
	d, err := New(Opts[int]{Divider: dv, HandlersQuantity: e.H, Inputs: inputs})
	if e.faultSeen {
		vAssert(err == ErrDividerBad, "C15: New returns ErrDividerBad when the divider breaks the sum rule at creation")
		vAssert(vSpawnCount() == 0, "C19: no goroutine is started when New fails")
		vReach("fault")
		return
	}
	if err != nil {
		vAssert(d == nil, "no discipline is returned together with an error")
		vAssert(vSpawnCount() == 0, "C19: no goroutine is started when New fails")
		vReach("rejected")
		return
	}
	vReach("accepted")
	vAssert(e.H >= 1, "New accepts only a non-zero HandlersQuantity")
	vAssert(len(d.priorities) == n, "every configured priority is listed once")
	for i := range d.priorities {
		vAssert(d.priorities[i] == e.ps[i], "C05/C15: priorities are sorted from highest to lowest before every division")
	}
	var st []uint
	for _, p := range e.ps {
		s := d.strategic[p]
		st = append(st, s)
		if kind != 0 {
			vAssert(s >= 1, "C15/C06: New rejects configurations in which some priority's share is zero")
		}
		in, ok := d.inputs[p]
		vAssert(vAnd(ok, !in.Drained), "every input is registered, not drained")
		vAssert(in.Channel == inputs[p], "every input is registered under its own priority")
	}
	sum := vSumAssert("strategic", st...)
	vAssert(sum <= e.H, "C01: the strategic shares of the configured priorities sum to at most HandlersQuantity")
	if kind != 0 {
		vAssert(sum == e.H, "C05: the strategic shares sum to HandlersQuantity")
	}
	for _, p := range e.ps {
		vAssert(d.actual[p] == 0, "C01: nothing is in flight when the discipline is created")
	}
	vAssert(d.feedbackLimit >= 1, "feedback limit is at least one")
	vAssert(vSpawnCount() == 1, "C19: exactly one goroutine is started by New")
	vAssert(vSpawnedIs(0, "main"), "C19: the goroutine started by New runs main")
}

// safeDivide in isolation: ANY divider result is either accepted with the exact
// sum or rejected with ErrDividerBad (overflowing totals: some error)
// gosym: mode=int
func VerifC15_safeDivide() {
	e := vArbitraryF(vParam("n", 2), -1, true)
	e.faultAt = vChoose("fault", 2) - 1
	dividend := vNondetUint("dividend")
	vAssume(dividend <= e.H)
	var before []uint
	for _, v := range e.d.tactic {
		before = append(before, v)
	}
	b := vSumAssume(before...)
	err := safeDivide(vStubDivider, e.d.priorities, dividend, e.d.tactic)
	if e.faultSeen {
		vAssert(err == ErrDividerBad, "C15: an added total that is neither zero nor the dividend is rejected with ErrDividerBad")
		vReach("fault")
		return
	}
	if err == nil {
		a := vSumAssert("C15: accepted distribution total", vVals(e.d.tactic)...)
		vAssert(vOr(a == 0, a-b == dividend), "C15: an accepted distribution added exactly the dividend (or is all zero)")
		vReach("ok")
	} else {
		vReach("rejected")
	}
}

// C15: a divider fault at ANY division made for a round - the first calcTactic, a retry of
// calcTactic after the round had to wait for a release, either division of recalcTactic - in
// any state of the discipline: the round fails with ErrDividerBad and hands out nothing more.
// gosym: mode=int
func VerifC15_round_fault() {
	n := vParam("n", 2)
	e := vRoundSetup(n, -1)
	d := e.d
	for i, p := range e.ps {
		in := d.inputs[p]
		switch vChoose("input", 3) {
		case 0: // idle
			in.Drained = false
		case 1: // has data
			in.Drained = false
			e.preload(i, 1+vChoose("items", 2))
		case 2:
			in.Drained = true
			close(e.ins[i])
		}
		d.inputs[p] = in
	}
	e.faultAt = vChoose("fault", 4) // call index within the round
	vOnBlock(d.feedback, func() {
		if vSumAssert("in flight", e.G...) == 0 {
			vDecline() // nothing left to release
			return
		}
		i := vChoose("release", e.n)
		vAssume(e.G[i] >= 1)
		d.feedback <- e.ps[i]
	})
	vExpect("BLOCKED", "ok") // every handler idle and nothing to release: the round waits (not the subject here)
	_, err := d.base()
	if e.faultSeen {
		vAssert(err == ErrDividerBad, "C15: a divider fault at any division of a round makes the round fail with ErrDividerBad")
		vAssert(e.sendsAfterFault == 0, "C15: nothing is handed out after a divider fault")
		vReach("fault")
		return
	}
	vAssert(err == nil, "C15: no error without a divider fault")
	vReach("nofault")
}

// C05 / C15, boundary instance: lists LONGER than the symbolic bound (sorting code tends to switch algorithm at a
// size threshold). Concrete distinct values in a few arrangements; no symbolic data.
// gosym: mode=int
func VerifC15_sort_large() {
	n := vParam("n", 9)
	vals := make([]uint, n)
	switch vChoose("arrangement", 4) {
	case 0:
		for i := range vals {
			vals[i] = uint(i + 1)
		}
	case 1:
		for i := range vals {
			vals[i] = uint(n - i)
		}
	case 2:
		for i := range vals {
			if i%2 == 0 {
				vals[i] = uint(i/2 + 1)
			} else {
				vals[i] = uint(n - i/2)
			}
		}
	case 3:
		for i := range vals {
			vals[i] = uint((i+n/2)%n + 1)
		}
	}
	sorted := append([]uint{}, vals...)
	common.SortPriorities(sorted)
	for i := 0; i+1 < n; i++ {
		vAssert(sorted[i] > sorted[i+1], "C05/C15: priorities are sorted from highest to lowest before every division")
	}
	vReach("end")
}
