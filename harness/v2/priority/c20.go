package priority

import (
	"github.com/akramarenkov/cqos/v2/priority/divider"
	"github.com/akramarenkov/cqos/v2/priority/types"
)

// C20 (v2 priority): happens-before check over the recorded trace of a complete run
// with the documented concurrent use: producers write, handlers receive from Output()
// and call Release() from their own goroutines, the creator reads Err().
// Every memory access of library code is recorded per role; only channel
// operations, go statements etc. order events of different roles.

// gosym: mode=int fp=uf
func VerifC20_v2_priority() {
	n := vParam("n", 2)
	H := uint(vParam("H", 2))
	J := vParam("J", 1)
	vRaceWatch()
	vRole("creator")
	inputs := map[uint]<-chan int{}
	var chans []chan int
	for i := 0; i < n; i++ {
		ch := make(chan int, J)
		chans = append(chans, ch)
		inputs[uint(10+i)] = ch
	}
	var dv divider.Divider = divider.Fair
	if vChoose("divider", 2) == 1 {
		dv = divider.Rate
	}
	d, err := New(Opts[int]{Divider: dv, HandlersQuantity: H, Inputs: inputs})
	vAssume(err == nil)
	// the options are the caller's: once New has returned it may reuse the map it passed (clear it, fill it for the next discipline)
	vTouchW(inputs)
	// goroutines of the user, all started after New returned
	nh := int(H)
	hn := []string{"handler0", "handler1", "handler2", "handler3"}
	for k := 0; k < nh; k++ {
		vRole(hn[k])
		vRole("creator")
	}
	vRole("producer")
	for _, ch := range chans {
		for j := 0; j < J; j++ {
			ch <- vNondetInt("item")
		}
		close(ch)
	}
	vRole("creator")
	turn := 0
	handler := func() {
		if len(d.output) == 0 {
			vDecline()
			return
		}
		vRole(hn[turn%nh])
		turn++
		x := <-d.Output()
		var keep types.Prioritized[int] = x
		d.Release(keep.Priority)
		vRole("goroutine0")
	}
	vOnBlock(d.feedback, handler)
	vOnBlock(d.output, handler)
	vReplace("getLimitedFeedback", func(dd *Discipline[int]) {
		// a handler may get to run between rounds as well
		if len(dd.output) > 0 && vChoose("handler-runs", 2) == 1 {
			handler()
		}
		dd.getLimitedFeedback()
	})
	vTickBudget(4)
	vFairTicks()
	vSleepBudget(3)
	vExpect("HORIZON", "ok")
	vExpect("TICK-HORIZON", "ok")
	vRunSpawned(0) // the scheduling goroutine
	// remaining handlers see the closed output
	for k := 0; k < nh; k++ {
		vRole(hn[k])
		for range d.Output() {
		}
	}
	vRole("creator")
	e, ok := <-d.Err()
	vAssert(vAnd(!ok, e == nil), "C07: normal termination")
	vCheckRaces()
	vReach("end")
}
