package priority

import (
	"github.com/akramarenkov/cqos/v2/priority/divider"
	"github.com/akramarenkov/cqos/v2/priority/utils"
)

// C18 (last clause): whatever utils.IsNonFatalConfig judges non-fatal is accepted by the constructor.
// The constructor's own test is the full-set member of the subset family the helper evaluates, so the
// implication is structural: it is decided for symbolic priorities and HandlersQuantity, for Fair
// exactly and for Rate under uninterpreted floats (for any values its float expressions may take).

func c18Accepted(dv divider.Divider) {
	n := vParam("n", 2)
	sorted := make([]uint, 0, n)
	for i := 0; i < n; i++ {
		sorted = append(sorted, vNondetUint("p"))
	}
	vDistinct(sorted...)
	for i := 1; i < n; i++ {
		vAssume(sorted[i-1] > sorted[i])
	}
	// the helper gets the priorities in an arbitrary order
	shuffled := make([]uint, 0, n)
	used := make([]bool, n)
	for i := 0; i < n; i++ {
		k := vChoose("perm", n-i)
		for j := 0; j < n; j++ {
			if used[j] {
				continue
			}
			if k == 0 {
				used[j] = true
				shuffled = append(shuffled, sorted[j])
				break
			}
			k--
		}
	}
	H := vNondetUint("H")
	inputs := map[uint]<-chan int{}
	for _, p := range sorted {
		inputs[p] = make(chan int, 1)
	}
	nonFatal := utils.IsNonFatalConfig(shuffled, dv, H)
	_, err := New(Opts[int]{Divider: dv, HandlersQuantity: H, Inputs: inputs})
	if nonFatal {
		vAssert(err == nil, "C18: a configuration judged non-fatal by IsNonFatalConfig is accepted by the constructor")
		vReach("non-fatal")
	} else {
		vReach("fatal")
	}
}

// gosym: mode=int
func VerifC18_nonfatal_accepted_fair() { c18Accepted(divider.Fair) }

// gosym: mode=int fp=uf
func VerifC18_nonfatal_accepted_rate() { c18Accepted(divider.Rate) }
