package priority

// C01 / C02 (v2): step obligations — each real function of the scheduling round,
// started from an ARBITRARY discipline state that satisfies the representation
// invariant, preserves the invariant; the capacity and exactly-once monitors run
// at every channel operation of the code under test.

// gosym: mode=int
func VerifC01_step_calcTactic() {
	e := vArbitrary(vParam("n", 2))
	e.assumeHead()
	proceed, err := e.d.calcTactic()
	if err != nil {
		vAssert(err == ErrDividerBad || true, "error is reported")
		e.assertHead("after calcTactic (error)")
		vReach("err")
		return
	}
	if proceed {
		e.assertRound("after calcTactic")
		for _, p := range e.ps {
			vAssert(vOr(e.d.actual[p] >= e.d.strategic[p], e.d.tactic[p] >= 1), "C06: a round proceeds only if every uncrowded priority got at least one handler")
		}
		vReach("proceed")
	} else {
		e.assertHead("after calcTactic (wait)")
		vReach("wait")
	}
}

// gosym: mode=int
func VerifC01_step_recalcTactic() {
	e := vArbitrary(vParam("n", 2))
	e.assumeRound()
	proceed, err := e.d.recalcTactic()
	if err != nil {
		e.assertHead("after recalcTactic (error)")
		vReach("err")
		return
	}
	if proceed {
		e.assertRound("after recalcTactic")
		vReach("proceed")
	} else {
		e.assertHead("after recalcTactic (no second phase)")
		vReach("stop")
	}
}

// one input channel drained by io / iou with an allowance left from calcTactic
// gosym: mode=int
func VerifC01_step_io() {
	n := vParam("n", 2)
	i := vChoose("which", n)
	ub := -1
	if vChoose("unbuffered", 2) == 1 {
		ub = i
	}
	e := vArbitraryU(n, ub)
	e.assumeRound()
	J := vParam("J", 2)
	p := e.ps[i]
	j := vChoose("items", J+1)
	e.preload(i, j)
	closed := vChoose("closed", 2) == 1
	if closed {
		close(e.ins[i])
	}
	drainedBefore := e.d.inputs[p].Drained
	vTickBudget(2*J + 3)
	vFairTicks()
	vExpect("TICK-HORIZON", "ok")
	var processed uint
	if cap(e.ins[i]) != 0 {
		processed = e.d.io(p)
	} else {
		processed = e.d.iou(p)
	}
	e.assertRound("after io/iou")
	vAssert(processed == uint(e.sends), "io/iou reports the number of items handed out")
	vAssert(e.recvs == e.sends, "every item read was handed out")
	vAssert(e.sends <= j, "no more items handed out than were supplied")
	if !closed {
		vAssert(e.d.inputs[p].Drained == drainedBefore, "an input is marked drained only when it was observed closed and empty")
	} else if e.d.inputs[p].Drained && !drainedBefore {
		vAssert(e.sends == j, "an input is marked drained only after everything written before the close was delivered")
	}
	vReach("end")
}

// prioritize over all inputs
// gosym: mode=int
func VerifC01_step_prioritize() {
	n := vParam("n", 2)
	e := vArbitraryU(n, vChoose("unbuffered", n+1)-1)
	e.assumeRound()
	J := vParam("J", 1)
	total := 0
	for i := range e.ps {
		j := vChoose("items", J+1)
		e.preload(i, j)
		total += j
		if vChoose("closed", 2) == 1 {
			close(e.ins[i])
		}
	}
	vTickBudget(3 * e.n)
	vFairTicks()
	vExpect("TICK-HORIZON", "ok")
	processed := e.d.prioritize()
	e.assertRound("after prioritize")
	vAssert(processed == uint(e.sends), "prioritize reports the number of items handed out")
	vAssert(e.recvs == e.sends, "every item read was handed out")
	vReach("end")
}

// feedback consumption between rounds
// gosym: mode=int
func VerifC01_step_feedback() {
	e := vArbitrary(vParam("n", 2))
	e.assumeHead()
	J := vParam("J", 2)
	e.feed(vChoose("tokens", J+1))
	before := vSumAssume(e.sumActual()...)
	switch vChoose("fn", 2) {
	case 0:
		pendingBefore := len(e.d.feedback)
		e.d.getLimitedFeedback()
		// progress: a release that has arrived is taken into account by the next poll (not left waiting for company)
		vAssert(vOr(pendingBefore == 0, len(e.d.feedback) < pendingBefore), "C06: between rounds at least one pending release is consumed whenever one is pending")
	case 1:
		if len(e.d.feedback) == 0 {
			vAssume(false)
		}
		e.d.getOneFeedback()
	}
	e.assertHead("after feedback")
	after := vSumAssert("after feedback", e.sumActual()...)
	vAssert(after <= before, "feedback only lowers the in-flight total")
	vReach("end")
}
