package priority

// Shared harness machinery for the v2 priority discipline: arbitrary-state
// construction, ghost state, the stub divider, monitors.

import (
	"time"

	"github.com/akramarenkov/cqos/v2/priority/internal/common"
	"github.com/akramarenkov/cqos/v2/priority/types"
)

type vEnv struct {
	d       *Discipline[int]
	n       int
	H       uint
	ps      []uint     // configured priorities, strictly descending
	foreign uint       // a key that is not a configured priority
	ins     []chan int // input channel per priority index
	G       []uint     // ghost: items handed out minus feedback consumed, per priority index

	// stub divider behaviour
	divCalls  int
	faultAt   int  // call index at which the divider breaks the sum rule (-1: never)
	faultSeen bool // the faulty call happened
	fullMaps  bool
	honest    bool // S2: divider obeys the sum rule by construction (assumed)

	// C02 monitor
	pending     bool
	relaxed     bool    // runs from New: judge C02 on what a reader of the output can tell (per-input queues), not on the read-then-write mechanism
	queue       [][]int // relaxed: items read from input i and not yet written, oldest first
	pendingItem int
	pendingIdx  int
	sends       int
	recvs       int

	// C15: sends after a divider fault
	sendsAfterFault int
}

var vE *vEnv

func vIdx(p uint) int {
	for i, q := range vE.ps {
		if p == q {
			return i
		}
	}
	return -1
}

// no-overflow sum: assumes (for pre-states) that the mathematical sum fits a word
func vSumAssume(xs ...uint) uint {
	s := uint(0)
	for _, x := range xs {
		t := s + x
		vAssume(t >= s)
		s = t
	}
	return s
}

// checked sum: asserts that no partial sum wraps
func vSumAssert(msg string, xs ...uint) uint {
	s := uint(0)
	for _, x := range xs {
		t := s + x
		vAssert(t >= s, msg+" (sum does not wrap)")
		s = t
	}
	return s
}

func vVals(m map[uint]uint) []uint {
	var out []uint
	for _, v := range m {
		out = append(out, v)
	}
	return out
}

// The stub divider: ANY function of its arguments that only writes the entries of
// the listed priorities and of one foreign key. The C15 argument contract is
// asserted on every call.
func vStubDivider(priorities []uint, dividend uint, distribution map[uint]uint) {
	e := vE
	call := e.divCalls
	e.divCalls++
	vAssert(distribution != nil, "divider is called with a non-nil distribution")
	vAssert(dividend <= e.H, "divider dividend does not exceed HandlersQuantity")
	for i, p := range priorities {
		vAssert(vIdx(p) >= 0, "divider list contains only configured priorities")
		if i > 0 {
			vAssert(priorities[i-1] > p, "divider list is strictly descending (sorted, distinct)")
		}
	}
	if e.honest && call != e.faultAt {
		// obeys the sum rule: adds exactly the dividend, spread arbitrarily over the listed priorities
		if len(priorities) == 0 {
			return
		}
		left := dividend
		for i, p := range priorities {
			add := vNondetUint("hon")
			if i == len(priorities)-1 {
				add = left
			}
			vAssume(add <= left)
			left -= add
			distribution[p] += add
		}
		return
	}
	before := make([]uint, len(priorities))
	for i, p := range priorities {
		before[i] = distribution[p]
		distribution[p] = vNondetUint("div")
	}
	fb := distribution[e.foreign]
	distribution[e.foreign] = vNondetUint("divx")
	if call == e.faultAt {
		// the fault of C15: a non-zero added total that differs from the dividend (totals representable)
		var now, was []uint
		for i, p := range priorities {
			now = append(now, distribution[p])
			was = append(was, before[i])
		}
		now = append(now, distribution[e.foreign])
		was = append(was, fb)
		a := vSumAssume(now...)
		b := vSumAssume(was...)
		vAssume(a >= b)
		vAssume(a-b != dividend)
		vAssume(a-b != 0)
		// everything else in the distribution is untouched, so (a-b) is the added total
		e.faultSeen = true
	}
}

type vArbOpts struct {
	n        int
	buffered []bool // per input: buffered (cap 4) or unbuffered
	fillAll  bool   // every map has an entry for every priority (else: chosen)
}

// vArbitrary builds an arbitrary discipline value. Nothing is assumed about the
// counters; callers add the representation invariant they need. unbuffered: index of
// the input that is unbuffered (-1: all buffered).
func vArbitrary(n int) *vEnv { return vArbitraryU(n, -1) }

func vArbitraryU(n int, unbuffered int) *vEnv { return vArbitraryF(n, unbuffered, false) }

func vArbitraryF(n int, unbuffered int, fullMaps bool) *vEnv {
	e := &vEnv{n: n, faultAt: -1, fullMaps: fullMaps}
	vE = e
	e.H = vNondetUint("H")
	vAssume(e.H >= 1)
	all := make([]uint, 0, n+1)
	for i := 0; i < n; i++ {
		all = append(all, vNondetUint("p"))
	}
	all = append(all, vNondetUint("foreign"))
	vDistinct(all...)
	for i := 1; i < n; i++ {
		vAssume(all[i-1] > all[i])
	}
	e.ps = all[:n]
	e.foreign = all[n]
	d := &Discipline[int]{
		opts:          Opts[int]{Divider: vStubDivider, HandlersQuantity: e.H, Inputs: map[uint]<-chan int{}},
		feedback:      make(chan uint, 8),
		inputs:        map[uint]common.Input[int]{},
		output:        make(chan types.Prioritized[int], 8),
		priorities:    append([]uint{}, e.ps...),
		actual:        map[uint]uint{},
		strategic:     map[uint]uint{},
		tactic:        map[uint]uint{},
		feedbackLimit: vNondetUint("fl"),
		interrupter:   time.NewTicker(defaultInterruptTimeout),
		err:           make(chan error, 1),
	}
	vAssume(d.feedbackLimit >= 1)
	e.d = d
	vKnownFields(d, "opts feedback inputs output priorities actual strategic tactic uncrowded useful feedbackLimit interrupter err")
	vKnownFields(&common.Input[int]{}, "Channel Drained") // per-input state (e.g. a held item) added by a change is outside the invariant built here
	e.G = make([]uint, n)
	present := 1
	if !e.fullMaps {
		present = vChoose("presence", 2) // 0: counters maps empty where possible, 1: every entry present
	}
	for i, p := range e.ps {
		capacity := 8
		if i == unbuffered {
			capacity = 0
		}
		ch := make(chan int, capacity)
		e.ins = append(e.ins, ch)
		d.opts.Inputs[p] = ch
		d.inputs[p] = common.Input[int]{Channel: ch, Drained: vNondetBool("drained")}
		d.strategic[p] = vNondetUint("s")
		if present == 1 {
			d.actual[p] = vNondetUint("a")
			d.tactic[p] = vNondetUint("t")
		}
		e.G[i] = d.actual[p]
	}
	if present == 1 {
		d.tactic[e.foreign] = vNondetUint("tx")
		// scratch slices: stale contents (the code truncates them before use)
		d.uncrowded = append(d.uncrowded, e.ps...)
		d.useful = append(d.useful, e.ps[n-1])
	}
	vSink(d.output)
	e.monitors()
	return e
}

// monitors: C01 capacity at the instant of every hand-out, C02 pending-item protocol
func (e *vEnv) monitors() {
	d := e.d
	e.queue = make([][]int, len(e.ins))
	vOnSend(d.output, func(v any) {
		x := v.(types.Prioritized[int])
		e.sends++
		if e.faultSeen {
			e.sendsAfterFault++
		}
		// C01: in flight before this hand-out, plus one, fits
		inflight := vSumAssert("in-flight total", e.G...)
		vAssert(inflight+1 > inflight && inflight+1 <= e.H, "C01: handing out an item keeps in-flight <= HandlersQuantity")
		if e.relaxed {
			// C02 as a reader of the output sees it: the item written is the oldest item read from the input registered
			// under the priority it carries and not yet written - holds for any internal buffering that keeps the order
			j := vIdx(x.Priority)
			vAssert(j >= 0, "C02: the item carries the priority of a configured input")
			if j >= 0 {
				vAssert(len(e.queue[j]) > 0, "C02: every output write is preceded by an input read (nothing fabricated or duplicated)")
				if len(e.queue[j]) > 0 {
					vAssert(x.Item == e.queue[j][0], "C02: the item written is the oldest item read from the input registered under its priority and not yet written (no reordering, no wrong tag)")
					e.queue[j] = e.queue[j][1:]
				}
				e.G[j]++
			}
			return
		}
		// C02: this is exactly the item just read, tagged with the priority its channel is registered under
		vAssert(e.pending, "C02: every output write is preceded by an input read (nothing fabricated or duplicated)")
		if e.pending {
			vAssert(x.Item == e.pendingItem, "C02: the item written is the item just read")
			vAssert(x.Priority == e.ps[e.pendingIdx], "C02: the item carries the priority its channel is registered under")
			e.G[e.pendingIdx]++
		}
		e.pending = false
	})
	for i := range e.ins {
		i := i
		vOnRecv(e.ins[i], func(v any, ok bool) {
			if e.relaxed {
				if ok {
					e.recvs++
					e.queue[i] = append(e.queue[i], v.(int))
				}
				return
			}
			vAssert(!e.pending, "C02: an item read from an input is written out before anything else is read")
			if ok {
				e.recvs++
				e.pending = true
				e.pendingItem = v.(int)
				e.pendingIdx = i
			}
		})
	}
	vOnRecv(d.feedback, func(v any, ok bool) {
		vAssert(vOr(e.relaxed, !e.pending), "C02: no feedback is read while an item is pending")
		if ok {
			p := v.(uint)
			i := vIdx(p)
			if i >= 0 {
				e.G[i]--
			}
		}
	})
}

// ---- invariants

// I0: the discipline's in-flight counters equal the ghost
func (e *vEnv) ghostInSync() bool {
	ok := true
	for i, p := range e.ps {
		ok = vAnd(ok, e.d.actual[p] == e.G[i])
	}
	return ok
}

func (e *vEnv) sumActual() []uint { return vVals(e.d.actual) }
func (e *vEnv) sumTactic() []uint { return vVals(e.d.tactic) }

// assumeHead: representation invariant at the head of loop() (between rounds)
func (e *vEnv) assumeHead() {
	a := vSumAssume(e.sumActual()...)
	vAssume(a <= e.H)
	var st []uint
	for _, p := range e.ps {
		st = append(st, e.d.strategic[p])
	}
	s := vSumAssume(st...)
	vAssume(s <= e.H)
}

// assumeRound: inside a round, the allowance still fits the vacant handlers
func (e *vEnv) assumeRound() {
	e.assumeHead()
	all := append(e.sumActual(), e.sumTactic()...)
	t := vSumAssume(all...)
	vAssume(t <= e.H)
}

func (e *vEnv) assertHead(where string) {
	a := vSumAssert(where+": total in flight", e.sumActual()...)
	vAssert(a <= e.H, where+": in-flight total <= HandlersQuantity")
	vAssert(e.ghostInSync(), where+": in-flight counters equal handed-out minus released")
	vAssert(!e.pending, where+": no item is left pending (read but not written)")
}

func (e *vEnv) assertRound(where string) {
	e.assertHead(where)
	all := append(e.sumActual(), e.sumTactic()...)
	t := vSumAssert(where+": in flight plus allowance", all...)
	vAssert(t <= e.H, where+": in-flight + remaining allowance <= HandlersQuantity")
}

// assumeConstructed: what v2 New guarantees about the strategic shares for a divider
// that writes only listed priorities: every share >= 1 and the shares sum to H
func (e *vEnv) assumeConstructed() {
	var st []uint
	for _, p := range e.ps {
		vAssume(e.d.strategic[p] >= 1)
		st = append(st, e.d.strategic[p])
	}
	vAssume(vSumAssume(st...) == e.H)
}

// ---- environment helpers

// preload puts j fresh items on input i (buffered: into the buffer; unbuffered: parked producers)
func (e *vEnv) preload(i, j int) {
	for k := 0; k < j; k++ {
		item := vNondetInt("item")
		if cap(e.ins[i]) > 0 {
			e.ins[i] <- item
		} else {
			vPark(e.ins[i], item)
		}
	}
}

// feed pushes j release tokens for priorities that have something in flight
func (e *vEnv) feed(j int) {
	g := append([]uint{}, e.G...)
	for k := 0; k < j; k++ {
		i := vChoose("token", e.n)
		vAssume(g[i] >= 1)
		g[i]--
		e.d.feedback <- e.ps[i]
	}
}
