package priority

// C05 / C06 (v2): whole rounds (real base()) from states the constructor and the
// previous rounds can produce, with small HandlersQuantity so that the item loops
// can be unrolled.

func vRoundSetup(n int, unbuffered int) *vEnv {
	e := vArbitraryF(n, unbuffered, true)
	e.honest = true
	e.assumeHead()
	e.assumeConstructed()
	vAssume(e.H <= uint(vParam("Hmax", 3)))
	vTickBudget(4)
	vFairTicks()
	return e
}

// C05: saturated inputs. Inv5: actual[p] <= strategic[p]; after a round every
// priority holds exactly its share.
// gosym: mode=int
func VerifC05_saturated_round() {
	n := vParam("n", 2)
	e := vRoundSetup(n, -1)
	d := e.d
	Hmax := vParam("Hmax", 3)
	for i, p := range e.ps {
		vAssume(d.actual[p] <= d.strategic[p])
		in := d.inputs[p]
		in.Drained = false
		d.inputs[p] = in
		e.preload(i, Hmax+1) // never observed empty or closed
	}
	// releases that arrived since the last round (any order and grouping)
	e.feed(vChoose("tokens", 3))
	d.getLimitedFeedback()
	for _, p := range e.ps {
		vAssert(d.actual[p] <= d.strategic[p], "C05: in-flight items of a priority never exceed its share")
	}
	vOnBlock(d.feedback, func() {
		total := vSumAssert("in flight", e.G...)
		vAssert(total == e.H, "C05: the round waits for a release only when every handler is occupied")
		i := vChoose("release", e.n)
		vAssume(e.G[i] >= 1)
		d.feedback <- e.ps[i]
	})
	save := e.divCalls
	processed, err := d.base()
	vAssert(err == nil, "no error with a sum-preserving divider")
	for i, p := range e.ps {
		vAssert(d.actual[p] == d.strategic[p], "C05: after a round under saturation every priority holds exactly its share")
		vAssert(e.G[i] == d.strategic[p], "C05: ghost in-flight count equals the share")
	}
	total := vSumAssert("in flight", e.G...)
	vAssert(total == e.H, "C05: whenever no release is outstanding all HandlersQuantity handlers are occupied")
	_ = processed
	_ = save
	vReach("end")
}

// C06-P2: nothing in flight, some input has data => an item is delivered without any release
// gosym: mode=int
func VerifC06_progress() {
	n := vParam("n", 2)
	q := vChoose("q", n)
	ub := -1
	if vChoose("unbuffered", 2) == 1 {
		ub = q
	}
	e := vRoundSetup(n, ub)
	d := e.d
	for i, p := range e.ps {
		vAssume(d.actual[p] == 0)
		in := d.inputs[p]
		if i == q {
			in.Drained = false
			d.inputs[p] = in
			e.preload(i, 1)
			continue
		}
		// the others: anything (idle, closed, drained, with data)
		switch vChoose("other", 3) {
		case 0:
			in.Drained = false
		case 1:
			in.Drained = false
			close(e.ins[i])
		case 2:
			in.Drained = true
			close(e.ins[i])
		}
		d.inputs[p] = in
	}
	vOnBlock(d.feedback, func() {
		vAssert(false, "C06: with nothing in flight the round never waits for a release")
		vDecline()
	})
	processed, err := d.base()
	vAssert(err == nil, "no error with a sum-preserving divider")
	vAssert(processed >= 1, "C06: with nothing in flight and data on some input an item is delivered without any release")
	vAssert(e.sends >= 1, "C06: an item reached the output")
	vReach("end")
}

// C06-P4: a priority that is alone in having data is granted all HandlersQuantity handlers
// gosym: mode=int
func VerifC06_sole_priority() {
	n := vParam("n", 2)
	q := vChoose("q", n)
	e := vRoundSetup(n, -1)
	d := e.d
	Hmax := vParam("Hmax", 3)
	for i, p := range e.ps {
		vAssume(d.actual[p] == 0)
		in := d.inputs[p]
		in.Drained = false
		d.inputs[p] = in
		if i == q {
			e.preload(i, Hmax+1)
		}
	}
	vOnBlock(d.feedback, func() {
		vAssert(false, "C06: with nothing in flight the round never waits for a release")
		vDecline()
	})
	_, err := d.base()
	vAssert(err == nil, "no error with a sum-preserving divider")
	vAssert(d.actual[e.ps[q]] == e.H, "C06: a priority that is alone in having data is granted all HandlersQuantity handlers within one round")
	vReach("end")
}

// C06-P2 over two rounds: inputs that close are observed in the first round; data that arrives on
// another input afterwards must still be delivered in the next round, with nothing in flight and
// without any release (what was learnt in round one must not starve round two).
// gosym: mode=int
func VerifC06_progress_two_rounds() {
	n := vParam("n", 3)
	q := vChoose("q", n)
	e := vRoundSetup(n, -1)
	d := e.d
	for i, p := range e.ps {
		vAssume(d.actual[p] == 0)
		in := d.inputs[p]
		in.Drained = false
		d.inputs[p] = in
		if i != q && vChoose("closes", 2) == 1 {
			close(e.ins[i]) // closed and empty, not yet observed
		}
	}
	vOnBlock(d.feedback, func() {
		vAssert(false, "C06: with nothing in flight the round never waits for a release")
		vDecline()
	})
	_, err := d.base()
	vAssert(err == nil, "no error with a sum-preserving divider")
	vAssert(e.sends == 0, "nothing to deliver in the first round")
	e.preload(q, 1)
	processed, err := d.base()
	vAssert(err == nil, "no error with a sum-preserving divider")
	vAssert(processed >= 1, "C06: with nothing in flight and data on some input an item is delivered without any release (also after other inputs were seen closed)")
	vReach("end")
}
