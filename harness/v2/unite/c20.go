package unite

// C20 (v2 unite; generated from the join harness): happens-before check of a complete run. The consumer receives
// slices in its own goroutine; in no-copy mode it reads and writes the slice
// between delivery and Release(); in copy mode it keeps every slice and writes
// into it at any later time.

// gosym: mode=int
func VerifC20_v2_unite() {
	JS := vParam("JS", 2)
	M := vParam("M", 3)
	vRaceWatch()
	vRole("creator")
	in := make(chan []int, M)
	nocopy := vChoose("nocopy", 2) == 1
	d, err := New(Opts[int]{Input: in, JoinSize: uint(JS), NoCopy: nocopy})
	vAssume(err == nil)
	vRole("consumer")
	vRole("producer")
	var produced [][]int
	for i := 0; i < M; i++ {
		ps := []int{vNondetInt("x"), vNondetInt("y")}[:1+vChoose("len", 2)]
		produced = append(produced, ps)
		in <- ps
	}
	close(in)
	vRole("creator")
	var kept [][]int
	consume := func() {
		if len(d.output) == 0 {
			vDecline()
			return
		}
		vRole("consumer")
		s := <-d.Output()
		vTouchR(s)
		if nocopy {
			d.Release()
		} else {
			vTouchW(s[:cap(s)]) // modifying includes appending into the spare capacity of the slice the consumer owns
			kept = append(kept, s)
			for _, k := range kept {
				vTouchW(k[:cap(k)]) // an old slice is modified while the discipline keeps working
			}
		}
		vRole("goroutine0")
	}
	vOnBlock(d.output, consume)
	if nocopy {
		// the discipline waits for the release: the consumer takes the slice, uses it, releases
		vOnBlock(d.release, func() {
			if len(d.output) == 0 {
				vDecline()
				return
			}
			vRole("consumer")
			s := <-d.Output()
			vTouchR(s) // no-copy: the consumer reads the slice it was lent, then releases it
			vWaiters(d.release, 0)
			vPark(d.release, struct{}{})
			vRole("goroutine0")
		})
	}
	vRunSpawned(0)
	vRole("consumer")
	for s := range d.Output() {
		vTouchR(s)
		if !nocopy {
			vTouchW(s[:cap(s)]) // modifying includes appending into the spare capacity of the slice the consumer owns
		}
		kept = append(kept, s)
	}
	if !nocopy {
		for _, k := range kept {
			vTouchW(k[:cap(k)])
		}
	}
	// the producer may still READ the slices it has sent (it must not modify them)
	vRole("producer")
	for _, ps := range produced {
		vTouchR(ps)
	}
	vCheckRaces()
	vReach("end")
}
