package unite

import "time"

// C03 / C08 / C09 / C11 (v2 unite): the real New + main on K input slices whose
// lengths range over 0..JoinSize+1, elements symbolic.

type vUniteEnv struct {
	d        *Discipline[int]
	inputs   [][]int
	flat     []int
	emitted  []int
	outs     [][]int
	outVals  [][]int // element values at the instant of delivery
	times    []int64
	awaiting bool
	t0       int64
	acc      []int64 // acceptance time of every element that is inside the discipline, oldest first
	mustFlush bool   // a tick was taken at least Timeout after acc[0]: the next thing the discipline does is a delivery
	rebase    bool   // a flush left elements behind (a slice that did not fit): their period starts when that flush is over
}

// elements left behind by a flush start their period at the end of that flush (the discipline re-reads the clock
// then); the harness takes the first clock value it sees afterwards, which is not earlier
func (e *vUniteEnv) rebaseLeftovers() {
	if e.rebase {
		now := vNow()
		for i := range e.acc {
			e.acc[i] = now
		}
		e.rebase = false
	}
}

const vC10Msg = "C10: a tick taken at least Timeout after the oldest buffered element was accepted flushes the buffer (an arrival never postpones the deadline of what is already buffered)"

func vUniteSetup(timed bool) *vUniteEnv {
	JS := vParam("JS", 2)
	K := vParam("K", 3)
	e := &vUniteEnv{}
	lazy := vChoose("lazy-consumer", 2) == 1
	capIn := K + 1
	if lazy {
		capIn = 0
	}
	in := make(chan []int, capIn)
	for i := 0; i < K; i++ {
		n := 0
		large := JS > 16
		if large {
			// a LARGE JoinSize (thresholds such as pre-allocation caps): lengths around the boundaries, concrete elements
			n = []int{0, 1, JS / 2, JS - 1, JS, JS + 1}[vChoose("len", 6)]
		} else {
			n = vChoose("len", JS+2)
		}
		s := make([]int, 0, n)
		for j := 0; j < n; j++ {
			x := len(e.flat) + 1
			if !large {
				x = vNondetInt("x")
			}
			s = append(s, x)
			e.flat = append(e.flat, x)
		}
		e.inputs = append(e.inputs, s)
		if lazy {
			vPark(in, s)
		} else {
			in <- s
		}
	}
	if lazy {
		vOnBlock(in, func() {
			if vIsClosed(in) {
				vDecline()
				return
			}
			close(in)
		})
	} else {
		close(in)
	}
	opts := Opts[int]{Input: in, JoinSize: uint(JS), NoCopy: vChoose("nocopy", 2) == 1}
	if timed {
		opts.Timeout = time.Duration(vNondetI64("timeout"))
		vAssume(opts.Timeout > 0)
		opts.TimeoutInaccuracy = []uint{25, 100}[vChoose("inacc", 2)] // 100: the ticker period equals the Timeout
	}
	e.t0 = vNow()
	d, err := New(opts)
	vAssume(err == nil)
	e.d = d
	if lazy {
		vOnBlock(d.output, func() {
			if len(d.output) == 0 {
				vDecline()
				return
			}
			<-d.output
		})
	} else {
		vSink(d.output)
	}
	if timed {
		vOnRecv(in, func(v any, ok bool) {
			vAssert(!e.mustFlush, vC10Msg)
			if ok {
				vAdvance()
				e.rebaseLeftovers()
				now := vNow()
				for range v.([]int) {
					e.acc = append(e.acc, now)
				}
			}
		})
		vOnTick(func() {
			vAssert(!e.mustFlush, vC10Msg)
			e.rebaseLeftovers()
			if len(e.acc) > 0 && vNow()-e.acc[0] >= int64(opts.Timeout) {
				e.mustFlush = true
			}
		})
	}
	vOnSend(d.output, func(v any) {
		s := v.([]int)
		e.mustFlush = false
		if len(s) <= len(e.acc) {
			e.acc = e.acc[len(s):]
		} else {
			e.acc = nil
		}
		e.rebase = len(e.acc) > 0
		vAssert(len(s) > 0, "C03/C11: no output slice is empty (empty input slices produce nothing)")
		vAssert(!e.awaiting, "C08: no further output is produced before the previous no-copy slice was released")
		if opts.NoCopy {
			e.awaiting = true
		} else {
			vAssert(!vSameArray(s, d.join), "C08: in copy mode the delivered slice does not share memory with the accumulation buffer")
			for _, o := range e.outs {
				vAssert(!vSameArray(s, o), "C08: in copy mode the delivered slice shares no memory with any other output")
			}
			for _, i := range e.inputs {
				vAssert(!vSameArray(s, i), "C08: in copy mode a forwarded slice is a copy, not the producer's slice")
			}
		}
		vWatch(s)
		e.outs = append(e.outs, s)
		var vals []int
		for _, x := range s {
			vals = append(vals, x)
			e.emitted = append(e.emitted, x)
		}
		e.outVals = append(e.outVals, vals)
		vAdvance() // real time passes between the discipline's own clock readings (e.g. while it was blocked on this send)
		e.times = append(e.times, vNow())
		if !opts.NoCopy {
			vHavocSlice(s)
		}
	})
	vOnBlock(d.release, func() {
		vAssert(e.awaiting, "C08: the discipline waits for a release only after a no-copy delivery")
		vAssert(vWatchHits() == 0, "C08: a no-copy slice is not modified between delivery and release")
		vUnwatch(e.outs[len(e.outs)-1])
		e.awaiting = false
		vPark(d.release, struct{}{})
	})
	vTickBudget(vParam("T", 2))
	vExpect("TICK-HORIZON", "ok")
	return e
}

func (e *vUniteEnv) checkStream() {
	JS := vParam("JS", 2)
	vAssert(len(e.emitted) == len(e.flat), "C03: the output carries exactly as many elements as were written")
	for i := range e.flat {
		if i < len(e.emitted) {
			vAssert(e.emitted[i] == e.flat[i], "C03: concatenated output equals the concatenated input slices")
		}
	}
	vAssert(vIsClosed(e.d.output), "C03: the output is closed after the input was closed and flushed")
	vAssert(vWatchHits() == 0, "C03/C08/C11: the discipline never writes into a slice it has delivered (a consumer that keeps the slices until the output closes still reads exactly the input stream, every input slice whole inside one output slice)")
	// C11: every output slice is a concatenation of WHOLE input slices, in order
	k := 0 // next input slice
	for _, o := range e.outVals {
		pos := 0
		parts := 0
		for pos < len(o) {
			for k < len(e.inputs) && len(e.inputs[k]) == 0 {
				k++
			}
			if k >= len(e.inputs) {
				vAssert(false, "C11: output contains elements beyond the input")
				break
			}
			s := e.inputs[k]
			vAssert(len(s) <= len(o)-pos, "C11: an input slice is never split across output slices")
			if len(s) > len(o)-pos {
				break
			}
			if len(s) >= JS {
				vAssert(pos == 0 && len(o) == len(s), "C11: an input slice of at least JoinSize elements is delivered as an output slice of its own")
			}
			pos += len(s)
			parts++
			k++
		}
		if len(o) > JS {
			vAssert(parts == 1, "C03: a unite slice exceeds JoinSize only if it is exactly one oversize input slice")
		}
	}
}

// next non-empty input after the first `used` elements
func (e *vUniteEnv) nextLenAfter(used int) int {
	c := 0
	for _, s := range e.inputs {
		if len(s) == 0 {
			continue
		}
		if c >= used {
			return len(s)
		}
		c += len(s)
	}
	return -1
}

// gosym: mode=int
func VerifC03_unite_untimed() {
	e := vUniteSetup(false)
	JS := vParam("JS", 2)
	vTermWatch(e.d.output)
	vRunSpawned(0) // the goroutine New started: main
	vRunLeftoverSpawned()
	e.checkStream()
	used := 0
	for k := 0; k+1 < len(e.outVals); k++ {
		used += len(e.outVals[k])
		nl := e.nextLenAfter(used)
		vAssert(len(e.outVals[k]) >= JS || nl >= JS || len(e.outVals[k])+nl > JS,
			"C09: without a timeout every unite slice is maximal (it reached JoinSize or the next input slice would not have fitted)")
	}
	vReach("end")
}

// gosym: mode=int
func VerifC03_unite_timed() {
	e := vUniteSetup(true)
	JS := vParam("JS", 2)
	vTermWatch(e.d.output)
	vRunSpawned(0) // the goroutine New started: main
	vRunLeftoverSpawned()
	e.checkStream()
	T := int64(e.d.opts.Timeout)
	used := 0
	for k := 0; k+1 < len(e.outVals); k++ {
		used += len(e.outVals[k])
		nl := e.nextLenAfter(used)
		maximal := len(e.outVals[k]) >= JS || nl >= JS || len(e.outVals[k])+nl > JS
		if !maximal {
			prev := e.t0
			if k > 0 {
				prev = e.times[k-1]
			}
			vAssert(e.times[k]-prev >= T, "C09: a non-maximal slice (not the last) is delivered no earlier than Timeout after the previous delivery")
		}
	}
	vAssert(vTickersRunning() == 0, "C19: no ticker of the discipline is left running when main returns")
	vReach("end")
}
