package divider

// Translator validation: concrete vectors (the shapes used by the repository's own
// divider tests plus extreme values) are pushed through the real Fair / Rate both in the
// symbolic engine (everything folds to constants) and natively; the dumps must agree.
// (Values whose float image leaves the uint range are excluded: Go leaves that conversion implementation-defined.)

func tvLists() [][]uint {
	return [][]uint{{3, 2, 1}, {70, 20, 10}, {4, 3, 2, 1}, {1}, {2, 1}, {100, 10, 1}, {7, 5, 3, 1}, {10, 7, 6, 1},
		{6, 5, 4, 3, 2, 1}, {1000, 100, 10, 1}, {3, 1}, {9, 7, 5, 3, 1}, {4294967296, 65536, 3}}
}

func tvDividends() []uint {
	return []uint{0, 1, 2, 3, 5, 6, 7, 8, 9, 10, 11, 12, 13, 100, 101, 999, 1000, 65535, 4294967295, 4294967296, 9007199254740993}
}

func VerifTV_dividers() {
	for li, list := range tvLists() {
		for _, d := range tvDividends() {
			f := map[uint]uint{list[0]: 5}
			Fair(list, d, f)
			r := map[uint]uint{}
			Rate(list, d, r)
			var fv, rv []uint
			for _, p := range list {
				fv = append(fv, f[p])
				rv = append(rv, r[p])
			}
			vDump("fair", li, d, fv, len(f))
			vDump("rate", li, d, rv, len(r))
		}
	}
	vReach("end")
}
