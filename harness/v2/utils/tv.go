package utils

import "github.com/akramarenkov/cqos/v2/priority/divider"

// Translator validation for the handler-quantity helpers on concrete vectors.
func VerifTV_utils() {
	lists := [][]uint{{3, 2, 1}, {1, 2, 3}, {70, 20, 10}, {4, 3, 2, 1}, {7, 5, 3, 1}, {1}, {10, 7, 6, 1}, {5, 4, 3, 2, 1}}
	for li, l := range lists {
		for _, q := range []uint{0, 1, 2, 3, 5, 6, 7, 8, 10, 12, 30, 100} {
			vDump("nonfatal", li, q, IsNonFatalConfig(l, divider.Fair, q), IsNonFatalConfig(l, divider.Rate, q))
			vDump("suitable", li, q, IsSuitableConfig(l, divider.Fair, q, 10), IsSuitableConfig(l, divider.Rate, q, 10), IsSuitableConfig(l, divider.Rate, q, 50))
		}
		vDump("pickup", li, PickUpMinNonFatalQuantity(l, divider.Rate, 40), PickUpMaxNonFatalQuantity(l, divider.Rate, 40),
			PickUpMinNonFatalQuantity(l, divider.Fair, 40), PickUpMinSuitableQuantity(l, divider.Rate, 60, 10), PickUpMaxSuitableQuantity(l, divider.Fair, 60, 25))
	}
	vReach("end")
}
