package priority

// C14 (v1; generated from the v2 harness by renaming Fair/Rate, then extended for the returned map): Fair and Rate conserve the dividend, touch only listed priorities,
// and respect the priority order.

// symbolic strictly descending list of n distinct priorities plus E foreign keys
func c14Keys(n, E int) (ps []uint, extras []uint) {
	all := make([]uint, 0, n+E)
	for i := 0; i < n; i++ {
		all = append(all, vNondetUint("p"))
	}
	for i := 0; i < E; i++ {
		all = append(all, vNondetUint("e"))
	}
	vDistinct(all...)
	for i := 1; i < n; i++ {
		vAssume(all[i-1] > all[i])
	}
	return all[:n], all[n:]
}

// pre-filled distribution: each listed priority absent or present with an arbitrary
// value; every foreign key present with an arbitrary value
func c14Prefill(ps, extras []uint) (dist map[uint]uint, pre []uint, had []bool, ex []uint) {
	dist = map[uint]uint{}
	pre = make([]uint, len(ps))
	had = make([]bool, len(ps))
	mode := vChoose("presence", 3) // 0 none present, 1 all present, 2 chosen per key (small n)
	if mode == 2 && len(ps) > 4 {
		vAssume(false)
	}
	for i, p := range ps {
		has := mode == 1
		if mode == 2 {
			has = vChoose("has", 2) == 1
		}
		if has {
			pre[i] = vNondetUint("pre")
			dist[p] = pre[i]
			had[i] = true
		}
	}
	ex = make([]uint, len(extras))
	for j, e := range extras {
		ex[j] = vNondetUint("x")
		dist[e] = ex[j]
	}
	return
}

func c14Frame(dist map[uint]uint, ps, extras, ex []uint, touched int) {
	for j, e := range extras {
		v, ok := dist[e]
		vAssert(vAnd(ok, v == ex[j]), "entries of priorities that are not listed are unchanged")
	}
	vAssert(len(dist) <= len(ps)+len(extras), "no entry appears for a key that is not listed")
	_ = touched
}

// gosym: mode=int
func VerifC14_fair() {
	n := vParam("n", 3)
	E := vParam("E", 1)
	ps, extras := c14Keys(n, E)
	D := vNondetUint("D")
	dist, pre, _, ex := c14Prefill(ps, extras)
	ret := FairDivider(ps, D, dist)
	vAssert(len(ret) == len(dist), "v1 returns the distribution it was given")
	ret[ps[0]]++
	dist[ps[0]]--
	inc := make([]uint, n)
	sum := uint(0)
	for i, p := range ps {
		v, ok := dist[p]
		vAssert(ok, "every listed priority has an entry after Fair")
		inc[i] = v - pre[i]
		sum += inc[i]
	}
	vAssert(sum == D, "Fair adds exactly the dividend in total")
	c14Frame(dist, ps, extras, ex, n)
	for i := 0; i+1 < n; i++ {
		d := inc[i] - inc[i+1]
		vAssert(vOr(d == 0, d == 1), "Fair increments are non-increasing along the list and neighbours differ by at most one")
	}
	d := inc[0] - inc[n-1]
	vAssert(vOr(d == 0, d == 1), "Fair increments differ by at most one overall")
	vAssert(inc[n-1] == D/uint(n), "the lowest priority gets floor(dividend/n)")
	vReach("end")
}

// Rate, structure only: float computations are uninterpreted, so the verdict
// holds for ANY value the float expressions may take.
// gosym: mode=bv fp=uf
func VerifC14_rate_conservation() {
	n := vParam("n", 3)
	E := vParam("E", 1)
	ps, extras := c14Keys(n, E)
	D := vNondetUint("D")
	dist, pre, had, ex := c14Prefill(ps, extras)
	ret := RateDivider(ps, D, dist)
	vAssert(len(ret) == len(dist), "v1 returns the distribution it was given")
	sum := uint(0)
	for i, p := range ps {
		v, ok := dist[p]
		if !ok {
			vAssert(!had[i], "Rate does not delete entries")
			continue
		}
		sum += v - pre[i]
	}
	vAssert(sum == D, "Rate adds exactly the dividend in total")
	c14Frame(dist, ps, extras, ex, n)
	vReach("end")
}

// nil distribution: v1 creates and returns a fresh map; empty list: returns nil, adds nothing
// gosym: mode=bv fp=uf
func VerifC14_degenerate() {
	ps, _ := c14Keys(2, 0)
	D := vNondetUint("D")
	f := FairDivider(ps, D, nil)
	vAssert(f != nil, "nil distribution: Fair returns a fresh map")
	vAssert(f[ps[0]]+f[ps[1]] == D, "nil distribution: Fair distributes the dividend into the fresh map")
	r := RateDivider(ps, D, nil)
	vAssert(r != nil, "nil distribution: Rate returns a fresh map")
	vAssert(r[ps[0]]+r[ps[1]] == D, "nil distribution: Rate distributes the dividend into the fresh map")
	m := map[uint]uint{}
	vAssert(FairDivider(nil, D, m) == nil, "empty list: Fair returns nil")
	vAssert(RateDivider(ps[:0], D, m) == nil, "empty list: Rate returns nil")
	vAssert(len(m) == 0, "an empty list adds nothing")
	vReach("end")
}
