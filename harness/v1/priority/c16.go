package priority

// C16 (v1 priority): Stop() / context cancellation injected at an arbitrary point;
// afterwards the environment is SILENT (no release, no consumer, no producer).
// The scheduling goroutine must reach the end of main() — a path that blocks or
// spins for ever is the violation.

// gosym: mode=int
func VerifC16_v1prio_stop() {
	n := vParam("n", 1)
	e, _ := vLoopSetup(n, true, true)
	d := e.d
	byCtx := vChoose("byCtx", 2) == 1
	signal := func() {
		e.stopped = true
		if byCtx {
			e.cancel()
		} else {
			vBreakSignal(d.breaker)
		}
	}
	env := func() {
		if e.stopped {
			vDecline()
			return
		}
		// before the stop: a handler may release, the consumer may read; or the stop arrives now
		switch vChoose("env", 2) {
		case 0:
			signal()
		case 1:
			total := vSumAssume(e.inflight()...)
			if total == 0 {
				signal()
				return
			}
			i := vChoose("release", e.n)
			vAssume(e.G[i] >= 1)
			e.fb <- e.ps[i]
		}
	}
	if vChoose("stopAtStart", 2) == 1 {
		signal()
	}
	vOnBlock(e.fb, env)
	vReplace("getLimitedFeedback", func(dd *Discipline[int]) {
		if !e.stopped && vChoose("stop-between-rounds", 2) == 1 {
			signal()
		}
		dd.getLimitedFeedback()
	})
	vLassoBound(40)
	vExpect("LASSO", "fail:C16: after Stop/cancel the scheduling goroutine spins for ever (all handlers busy, nobody releases)")
	vExpect("BLOCKED", "fail:C16: after Stop/cancel the scheduling goroutine blocks for ever")
	vExpect("BUDGET", "fail:C16: after Stop/cancel the scheduling goroutine does not terminate")
	vTermWatch(d.err)
	d.main()
	vReach("returned")
	vAssert(vTickersRunning() == 0, "C19: the interrupter ticker is not left running when main returns")
	vAssert(vAnd(vIsClosed(d.err), vIsClosed(d.inputAdds), vIsClosed(d.inputRmvs)), "C19: main closes its channels")
}
