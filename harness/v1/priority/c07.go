package priority

// C07 / C15 / C16 / C19 / C06-P1 (v1): the real loop() and main() from an arbitrary
// between-rounds state. GracefulStop is the graceful breaker's signal; Stop / cancel
// are injected at arbitrary blocking points into an otherwise silent environment.

type vLoopCfg struct {
	closedIn []bool
	supplied []int
	graceful bool
}

func vLoopSetup(n int, constructed bool, blockingOutput bool) (*vEnv, *vLoopCfg) {
	ub := vChoose("unbuffered", n+1) - 1
	e := vArbitraryF(n, ub, true)
	e.honest = true
	d := e.d
	cfg := &vLoopCfg{closedIn: make([]bool, n), supplied: make([]int, n)}
	J := vParam("J", 1)
	for i, p := range e.ps {
		in := d.inputs[p]
		switch vChoose("input", 3) {
		case 0:
			in.Drained = false
			cfg.supplied[i] = vChoose("items", J+1)
			e.preload(i, cfg.supplied[i])
		case 1:
			in.Drained = false
			cfg.supplied[i] = vChoose("items", J+1)
			e.preload(i, cfg.supplied[i])
			close(e.ins[i])
			cfg.closedIn[i] = true
		case 2:
			in.Drained = true
			close(e.ins[i])
			cfg.closedIn[i] = true
		}
		d.inputs[p] = in
	}
	e.assumeHead()
	if constructed {
		e.assumeConstructed()
	} else {
		// v1 accepts any division the divider returns: the shares only obey the sum rule
		var st []uint
		for _, p := range e.ps {
			st = append(st, d.strategic[p])
		}
		vAssume(vSumAssume(st...) == e.H)
	}
	B := uint(vParam("B", 1))
	vAssume(vSumAssume(e.inflight()...) <= B) // includes items of a REMOVED priority that are still in flight
	e.feed(vChoose("tokens", 2))
	if !blockingOutput {
		vOnBlock(e.fb, func() {
			if e.stopped {
				vDecline()
				return
			}
			total := vSumAssert("in flight", e.inflight()...)
			vAssert(total > 0, "C06: the discipline blocks on the feedback channel only while some item is in flight (no deadlock)")
			i := vChoose("release", e.n+1)
			if i == e.n {
				// an item of a removed priority is fed back
				vAssume(e.Gx >= 1)
				e.fb <- e.foreign
				return
			}
			vAssume(e.G[i] >= 1)
			e.fb <- e.ps[i]
		})
	}
	vReplace("base", func(dd *Discipline[int]) (uint, error) {
		e.assertHead("loop head")
		return dd.base()
	})
	vTickBudget(4)
	vFairTicks()
	vSleepBudget(vParam("K", 1))
	vExpect("HORIZON", "ok")
	vExpect("TICK-HORIZON", "ok")
	return e, cfg
}

func (e *vEnv) allDelivered(cfg *vLoopCfg) bool {
	ok := true
	for i := range e.ps {
		ok = vAnd(ok, cfg.closedIn[i], len(e.ins[i]) == 0, vParkedLen(e.ins[i]) == 0, e.d.inputs[e.ps[i]].Drained)
	}
	return ok
}

// graceful termination
// gosym: mode=int
func VerifC07_v1_main_graceful() {
	n := vParam("n", 1)
	e, cfg := vLoopSetup(n, true, false)
	d := e.d
	e.faultAt = vChoose("fault", 3) - 1
	if vChoose("graceful", 2) == 1 {
		vBreakSignal(d.graceful)
		cfg.graceful = true
	}
	vReplace("getLimitedFeedback", func(dd *Discipline[int]) {
		if !cfg.graceful && vChoose("graceful-now", 2) == 1 {
			vBreakSignal(dd.graceful)
			cfg.graceful = true
		}
		dd.getLimitedFeedback()
	})
	vTermWatch(d.err)
	d.main()
	vReach("returned")
	g := vSumAssert("in flight at return", e.inflight()...)
	vAssert(g == 0, "C07: the discipline completes (GracefulStop returns) only after every delivered item was released")
	if e.faultSeen {
		vAssert(len(d.err) == 1, "C15: exactly one error value is reported")
		v, ok := <-d.err
		vAssert(vAnd(ok, v == ErrDividerBad), "C15: the reported error is ErrDividerBad")
		vAssert(e.sendsAfterFault == 0, "C15: nothing is handed out after a divider fault")
	} else {
		vAssert(cfg.graceful, "C07: without Stop/cancel/fault the discipline completes only after GracefulStop was requested")
		vAssert(e.allDelivered(cfg), "C07: GracefulStop completes only when every input is closed, empty and marked drained")
		vAssert(len(d.err) == 0, "C07: no error value in normal mode")
		total := 0
		for i := range e.ps {
			total += cfg.supplied[i]
		}
		vAssert(e.sends == total, "C02: at graceful termination everything written before the close was handed out exactly once")
	}
	vAssert(vAnd(vIsClosed(d.err), vIsClosed(d.inputAdds), vIsClosed(d.inputRmvs)), "C19: main closes its channels")
	vAssert(vTickersRunning() == 0, "C19: the interrupter ticker is not left running when main returns")
}

// promptness of GracefulStop under the documented precondition (every share >= 1)
// gosym: mode=int
func VerifC07_v1_prompt() {
	n := vParam("n", 1)
	e := vArbitraryF(n, -1, true)
	d := e.d
	// (a) every input already observed drained, g items in flight; or
	// (b) inputs closed and empty but not all observed yet, nothing in flight.
	// (With items in flight AND unobserved inputs the discipline legitimately idles until a
	// release lets it give the unobserved priority an allowance - that is not "all released".)
	allSeen := vChoose("all-seen", 2) == 1
	for i, p := range e.ps {
		in := d.inputs[p]
		in.Drained = allSeen || vChoose("seen", 2) == 1
		d.inputs[p] = in
		close(e.ins[i])
	}
	e.assumeHead()
	e.assumeConstructed()
	vAssume(e.Gx == 0)
	g := vSumAssume(e.G...)
	vAssume(g <= uint(vParam("B", 2)))
	if !allSeen {
		vAssume(g == 0)
	}
	e.honest = true
	vBreakSignal(d.graceful)
	vOnBlock(e.fb, func() {
		i := vChoose("release", e.n)
		vAssume(e.G[i] >= 1)
		e.fb <- e.ps[i]
	})
	vSleepBudget(0)
	vTickBudget(4)
	vFairTicks()
	vExpect("HORIZON", "fail:C07: GracefulStop does not complete promptly although all inputs are closed and empty and everything was released (every share >= 1)")
	err := d.loop()
	vAssert(err == nil, "C07: no error in normal mode")
	vAssert(uint(vRecvCount(e.fb)) == g, "C07: loop returns after exactly as many releases as items were in flight")
	vReach("end")
}

// the same WITHOUT the precondition: v1 accepts divisions with a zero share (known finding)
// gosym: mode=int
func VerifC07_v1_zero_share() {
	n := vParam("n", 2)
	e := vArbitraryF(n, -1, true)
	d := e.d
	var st []uint
	for i, p := range e.ps {
		in := d.inputs[p]
		in.Drained = false
		d.inputs[p] = in
		close(e.ins[i])
		vAssume(d.actual[p] == 0)
		st = append(st, d.strategic[p])
	}
	e.assumeHead()
	vAssume(vSumAssume(st...) == e.H)
	vAssume(e.Gx == 0)
	e.honest = true
	vBreakSignal(d.graceful)
	vOnBlock(e.fb, func() { vDecline() })
	vSleepBudget(2)
	vTickBudget(4)
	vFairTicks()
	vExpect("HORIZON", "fail:C07: GracefulStop never completes: an input whose priority has a zero share is never read, so never marked drained")
	vExpect("BLOCKED", "fail:C06: nothing in flight, nothing delivered, the discipline waits for a release that cannot come (zero share)")
	err := d.loop()
	vAssert(err == nil, "C07: no error in normal mode")
	vReach("end")
}
