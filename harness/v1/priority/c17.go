package priority

import "github.com/akramarenkov/cqos/priority/internal/common"

// C17 (v1): AddInput / RemoveInput.

// pre-state in which priority index k is configured in the harness' bookkeeping but
// NOT registered in the discipline (never added, or removed earlier - possibly with
// items still in flight)
func vAbsentState(n, k int) *vEnv {
	e := vArbitraryF(n, -1, true)
	e.honest = true
	d := e.d
	p := e.ps[k]
	delete(d.inputs, p)
	delete(d.tactic, p)
	delete(d.strategic, p)
	d.priorities = removePriority(d.priorities, p)
	if vChoose("inflight-of-removed", 2) == 0 {
		vAssume(d.actual[p] == 0)
		delete(d.actual, p) // clearActual has forgotten it
	}
	e.removed[k] = true
	e.assumeHead()
	return e
}

func (e *vEnv) assertRegistered(where string) {
	d := e.d
	want := 0
	for i, p := range e.ps {
		if e.removed[i] {
			_, ok := d.inputs[p]
			vAssert(!ok, where+": C17: a removed priority has no input registered")
			_, okt := d.tactic[p]
			vAssert(!okt, where+": C17: a removed priority has no allowance")
			continue
		}
		want++
		in, ok := d.inputs[p]
		vAssert(ok, where+": C17: every configured priority has its input registered")
		vAssert(in.Channel == (<-chan int)(e.ins[i]), where+": C17: the input registered for a priority is the channel last added for it")
	}
	vAssert(len(d.priorities) == want, where+": C17: the priority list holds every configured priority exactly once")
	for i := 0; i+1 < len(d.priorities); i++ {
		vAssert(d.priorities[i] > d.priorities[i+1], where+": C17: the priority list stays strictly descending")
	}
	for _, p := range d.priorities {
		i := vIdx(p)
		vAssert(i >= 0 && !e.removed[i], where+": C17: the priority list holds only configured priorities")
	}
	var st []uint
	for _, p := range d.priorities {
		st = append(st, d.strategic[p])
	}
	if len(st) > 0 {
		vAssert(vSumAssert(where+": strategic", st...) == e.H, where+": C17: the strategic division is recomputed over the current priorities")
	}
	vAssert(e.ghostInSync(), where+": C17: items already in flight stay accounted for")
}

// gosym: mode=int
func VerifC17_step_add() {
	n := vParam("n", 2)
	k := vChoose("k", n)
	var e *vEnv
	replace := vChoose("replace", 2) == 1
	if replace {
		e = vArbitraryF(n, -1, true)
		e.honest = true
		e.assumeHead()
	} else {
		e = vAbsentState(n, k)
	}
	d := e.d
	ch := make(chan int, 2)
	e.ins[k] = ch
	e.removed[k] = false
	d.addInput(ch, e.ps[k])
	e.assertRegistered("after addInput")
	vAssert(!d.inputs[e.ps[k]].Drained, "C17: a (re-)added input is not marked drained")
	vReach("end")
}

// gosym: mode=int
func VerifC17_step_remove() {
	n := vParam("n", 2)
	k := vChoose("k", n)
	e := vArbitraryF(n, -1, true)
	e.honest = true
	e.assumeHead()
	d := e.d
	before := d.actual[e.ps[k]]
	e.removed[k] = true
	d.removeInput(e.ps[k])
	e.assertRegistered("after removeInput")
	vAssert(d.actual[e.ps[k]] == before, "C17: removing an input does not forget its items in flight")
	d.clearActual()
	e.assertRegistered("after clearActual")
	for i, p := range e.ps {
		v, ok := d.actual[p]
		if !e.removed[i] {
			continue
		}
		vAssert(vOr(ok, e.G[i] == 0), "C17: the in-flight counter of a removed priority is forgotten only when it is zero")
		if ok {
			vAssert(v == e.G[i], "C17: the in-flight counter of a removed priority is kept while items are in flight")
		}
	}
	// removing a priority that is not configured changes nothing
	d.removeInput(e.foreign)
	e.assertRegistered("after removeInput of an unknown priority")
	vReach("end")
}

// commands interleaved with rounds: the real loop() with add / replace / remove / re-add
// commands parked on the command channels
// gosym: mode=int
func VerifC17_loop_commands() {
	n := vParam("n", 2)
	e, _ := vLoopSetup(n, false, false)
	d := e.d
	K := vParam("C", 2)
	var addedChans []chan int
	reads := make([]int, 0)
	watchOld := func(ch chan int, what string) {
		vOnRecv(ch, func(v any, ok bool) {
			vAssert(false, "C17: "+what)
		})
	}
	for c := 0; c < K; c++ {
		k := vChoose("target", n)
		switch vChoose("cmd", 2) {
		case 0: // add / replace / re-add
			ch := make(chan int, 2)
			if vChoose("with-item", 2) == 1 {
				ch <- vNondetInt("item")
			}
			close(ch)
			addedChans = append(addedChans, ch)
			vPark(d.inputAdds, inputAdd[int]{channel: ch, priority: e.ps[k]})
			kk := k
			_ = reads
			// when the command is taken: the old channel must never be read again, the new one feeds priority k
			old := e.ins[kk]
			vOnBlock(d.inputAdds, func() { vDecline() })
			e.pendingAdds = append(e.pendingAdds, vPendingAdd{idx: kk, ch: ch, old: old})
		case 1:
			vPark(d.inputRmvs, e.ps[k])
			e.pendingRmvs = append(e.pendingRmvs, k)
		}
	}
	vOnRecv(d.inputAdds, func(v any, ok bool) {
		if !ok || len(e.pendingAdds) == 0 {
			return
		}
		a := e.pendingAdds[0]
		e.pendingAdds = e.pendingAdds[1:]
		if a.old != a.ch {
			watchOld(a.old, "after AddInput returned the channel previously registered for the priority is never read again")
		}
		e.ins[a.idx] = a.ch
		e.removed[a.idx] = false
		idx := a.idx
		vOnRecv(a.ch, func(v any, ok bool) {
			vAssert(!e.pending, "C02: an item read from an input is written out before anything else is read")
			if ok {
				e.recvs++
				e.pending = true
				e.pendingItem = v.(int)
				e.pendingIdx = idx
			}
		})
	})
	vOnRecv(d.inputRmvs, func(v any, ok bool) {
		if !ok || len(e.pendingRmvs) == 0 {
			return
		}
		k := e.pendingRmvs[0]
		e.pendingRmvs = e.pendingRmvs[1:]
		if !e.removed[k] {
			e.removed[k] = true
			watchOld(e.ins[k], "after RemoveInput returned the discipline never again reads from that channel")
		}
	})
	vBreakSignal(d.graceful)
	vSleepBudget(2)
	err := d.loop()
	vReach("returned")
	vAssert(err == nil, "no error with a sum-preserving divider")
	e.assertRegistered("after the command sequence")
	g := vSumAssert("in flight at return", e.inflight()...)
	vAssert(g == 0, "C17/C07: graceful termination across additions and removals still waits for every release")
	// every channel that is registered at the end was read to its end (nothing written before its close is lost)
	for i := range e.ps {
		if !e.removed[i] {
			vAssert(len(e.ins[i]) == 0 && vParkedLen(e.ins[i]) == 0, "C02/C17: at graceful termination every item written to a registered (possibly re-added) channel before its close was delivered")
		}
	}
	_ = addedChans
	for i, p := range e.ps {
		if !e.removed[i] {
			vAssert(d.inputs[p].Drained, "C17/C07: graceful termination only when every remaining input is drained")
		}
	}
}

var _ = common.DefaultCapacityDivider

// The same commands in a run through the real New (nothing of the discipline's representation is
// built or read by the harness: only channel traffic and the return of main are observed), so the
// check stays meaningful for a change that re-organises the internal bookkeeping.
// gosym: mode=int
func VerifC17_v1_run() {
	n := vParam("n", 2)
	H := uint(vParam("H", 2))
	J := vParam("J", 1)
	C := vParam("C", 2)
	e := &vEnv{n: n, faultAt: -1, H: H, honest: true}
	vE = e
	all := make([]uint, 0, n+1)
	for i := 0; i < n+1; i++ {
		all = append(all, vNondetUint("p"))
	}
	vDistinct(all...)
	for i := 1; i < n; i++ {
		vAssume(all[i-1] > all[i])
	}
	e.ps, e.foreign = all[:n], all[n]
	e.removed = make([]bool, n)
	closed := make([]bool, n)
	inputs := map[uint]<-chan int{}
	for i := 0; i < n; i++ {
		ch := make(chan int, J+1)
		e.ins = append(e.ins, ch)
		inputs[e.ps[i]] = ch
		for k := vChoose("items", J+1); k > 0; k-- {
			ch <- vNondetInt("item")
		}
		if vChoose("closed", 2) == 1 {
			close(ch)
			closed[i] = true
		}
	}
	e.fb = make(chan uint, 1)
	e.out = make(chan Prioritized[int], 1)
	d, err := New(Opts[int]{Divider: FairDivider, Feedback: e.fb, HandlersQuantity: H, Inputs: inputs, Output: e.out})
	vAssume(err == nil)
	e.d = d
	e.G = make([]uint, n)
	vSink(e.out)
	e.monitors()
	watchOld := func(ch chan int, what string) {
		vOnRecv(ch, func(v any, ok bool) {
			vAssert(false, "C17: "+what)
		})
	}
	// callers of AddInput / RemoveInput: each call is made at the start or right after some later hand-out
	// (any moment, as far as the discipline can tell) and blocks on the command channel until it is taken
	type cmd struct {
		add bool
		k   int
		ch  chan int
	}
	var cmds []cmd
	for c := 0; c < C; c++ {
		k := vChoose("target", n)
		switch vChoose("cmd", 3) {
		case 1: // add / replace / re-add: a channel that is already closed, with or without an item
			ch := make(chan int, 2)
			if vChoose("with-item", 2) == 1 {
				ch <- vNondetInt("item")
			}
			close(ch)
			cmds = append(cmds, cmd{add: true, k: k, ch: ch})
		case 2:
			cmds = append(cmds, cmd{k: k})
		}
	}
	next := 0
	issue := func() {
		for next < len(cmds) && vChoose("call-now", 2) == 1 {
			c := cmds[next]
			next++
			if c.add {
				vPark(d.inputAdds, inputAdd[int]{channel: c.ch, priority: e.ps[c.k]})
				e.pendingAdds = append(e.pendingAdds, vPendingAdd{idx: c.k, ch: c.ch, old: nil})
			} else {
				vPark(d.inputRmvs, e.ps[c.k])
				e.pendingRmvs = append(e.pendingRmvs, c.k)
			}
		}
	}
	issue()
	e.afterSend = issue
	vOnRecv(d.inputAdds, func(v any, ok bool) {
		if !ok || len(e.pendingAdds) == 0 {
			return
		}
		a := e.pendingAdds[0]
		e.pendingAdds = e.pendingAdds[1:]
		if !e.removed[a.idx] {
			watchOld(e.ins[a.idx], "after AddInput returned the channel previously registered for the priority is never read again")
		}
		e.ins[a.idx] = a.ch
		e.removed[a.idx] = false
		closed[a.idx] = true
		idx := a.idx
		vOnRecv(a.ch, func(v any, ok bool) {
			vAssert(!e.pending, "C02: an item read from an input is written out before anything else is read")
			if ok {
				e.recvs++
				e.pending = true
				e.pendingItem = v.(int)
				e.pendingIdx = idx
			}
		})
	})
	vOnRecv(d.inputRmvs, func(v any, ok bool) {
		if !ok || len(e.pendingRmvs) == 0 {
			return
		}
		k := e.pendingRmvs[0]
		e.pendingRmvs = e.pendingRmvs[1:]
		if !e.removed[k] {
			e.removed[k] = true
			watchOld(e.ins[k], "after RemoveInput returned the discipline never again reads from that channel")
		}
	})
	vOnBlock(e.fb, func() {
		if vSumAssert("in flight", e.G...) == 0 {
			vDecline()
			return
		}
		i := vChoose("release", e.n)
		vAssume(e.G[i] >= 1)
		e.fb <- e.ps[i]
	})
	vBreakSignal(d.graceful) // GracefulStop() has been called; it returns when main completes
	vTickBudget(4)
	vFairTicks()
	vSleepBudget(vParam("K", 3))
	vExpect("HORIZON", "ok") // some registered input stays open: GracefulStop does not return (documented)
	vExpect("TICK-HORIZON", "ok")
	vExpect("BLOCKED", "fail:C06/C07/C17: the discipline waits for a release although nothing is in flight (accounting lost across AddInput / RemoveInput)")
	vTermWatch(d.err)
	vRunSpawned(0)
	vRunLeftoverSpawned()
	vReach("returned")
	g := vSumAssert("in flight at return", e.G...)
	vAssert(g == 0, "C07/C17: GracefulStop returns only after every delivered item was released")
	for i := range e.ps {
		if !e.removed[i] {
			vAssert(closed[i], "C07/C17: GracefulStop returns only when every input that is still registered has been closed")
			vAssert(len(e.ins[i]) == 0, "C02/C06/C07/C17: GracefulStop returns only when every input that is still registered has been emptied (nothing written before the close is lost or left undelivered)")
		}
	}
	vAssert(vAnd(vIsClosed(d.err), len(d.err) == 0), "C07: normal termination closes err without an error value")
}
