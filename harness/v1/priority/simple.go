package priority

import (
	"context"
	"sync"
)

// C01 / C02 / C07 / C16 / C19 (v1 Simple): the real NewSimple, Simple.main and
// Simple.handler. Goroutines are run cooperatively: the scheduling goroutine of the
// wrapped discipline and the handlers are run when Simple.main blocks on them.

// Simple.main: whichever way termination is requested, the epilogue runs
// priority.Stop -> cancel -> wait for all handlers -> close channels -> Complete.
// gosym: mode=int
func VerifC16_v1simple_main() {
	H := vParam("H", 2)
	in := make(chan int, 2)
	for k := vChoose("items", 3); k > 0; k-- {
		in <- vNondetInt("item")
	}
	handles := 0
	running := 0
	handle := func(ctx context.Context, item int) {
		running++
		handles++
		// a Handle that honours its context: it returns (at the latest) when the context is cancelled
		running--
	}
	ctx, cancel := context.WithCancel(context.Background())
	how := vChoose("how", 4)
	// how == 3: error termination - the divider is Fair at creation and over-allocates afterwards
	divCalls := 0
	dv := func(ps []uint, dividend uint, dist map[uint]uint) map[uint]uint {
		out := FairDivider(ps, dividend, dist)
		if how == 3 && divCalls >= 1 && len(ps) > 0 {
			out[ps[0]]++
		}
		divCalls++
		return out
	}
	s, err := NewSimple(SimpleOpts[int]{Ctx: ctx, Divider: dv, Handle: handle, HandlersQuantity: uint(H), Inputs: map[uint]<-chan int{1: in}})
	vAssume(err == nil)
	vAssert(vSpawnCount() == 2, "C19: NewSimple starts the scheduling goroutine of the wrapped discipline and its own main")
	vAssert(vAnd(vSpawnedIs(0, "Discipline"), vSpawnedIs(1, "Simple")), "C19: goroutines started by NewSimple")
	then := vChoose("then", 3) // a second request while the first is still being served: none / Stop / cancel
	requested := false
	second := false
	prioDone := false
	handlersRun := false
	var order []string
	vOnClose(s.feedback, func() {
		order = append(order, "close-feedback")
		vAssert(vWaitCount() == 0, "C07/C19: the feedback channel is closed only after every handler has returned")
		vAssert(prioDone, "C16: the wrapped discipline has completed before the channels are closed")
	})
	vOnClose(s.err, func() {
		// Err() is a documented termination signal: when it closes nothing of the discipline may still be running
		vAssert(vWaitCount() == 0, "C07/C19: the error channel of the simplified discipline is closed only after every handler has returned")
		vAssert(prioDone, "C19: the wrapped discipline has completed before the error channel is closed")
	})
	vOnClose(s.output, func() {
		order = append(order, "close-output")
		vAssert(vWaitCount() == 0, "C07/C19: the output channel is closed only after every handler has returned")
	})
	vOnWait(func() {
		// wg.Wait: the handlers run now; their context must already be cancelled, so each returns without handling
		vAssert(prioDone, "C16: Simple.main stops the wrapped discipline before it waits for the handlers")
		handlersRun = true
		for i := 2; i < vSpawnCount(); i++ {
			if vSpawnedIs(i, "handler") {
				vRunSpawned(i)
			}
			// any other goroutine the discipline may have started is covered by the leftover obligation below
		}
	})
	vOnAnyBlock(func() {
		if !requested {
			requested = true
			switch how {
			case 0:
				vBreakSignal(s.breaker)
			case 1:
				cancel()
			case 2:
				vBreakSignal(s.graceful)
			case 3:
				// the wrapped discipline terminates on its own: its divider breaks the sum rule in the first round
				prioDone = true
				vRunSpawned(0)
			}
			return
		}
		if !second && then != 0 {
			second = true
			if then == 1 {
				vBreakSignal(s.breaker)
			} else {
				cancel()
			}
			return
		}
		if !prioDone {
			// Simple.main waits in priority.Stop() / GracefulStop(): the scheduling goroutine runs to completion
			prioDone = true
			vRunSpawned(0)
			return
		}
		if len(s.output) > 0 {
			// the scheduling goroutine waits for a release: a handler (abstracted here by what
			// VerifC01_v1simple_handler establishes about it) handles one delivered item and feeds back
			x := <-s.output
			handle(ctx, x.Item)
			s.feedback <- x.Priority
			return
		}
		vDecline()
	})
	vSinkWhenFull()
	vLassoBound(40)
	if how == 3 {
		vExpect("LASSO", "fail:C15/C19: after a divider fault the simplified discipline never completes (a goroutine spins)")
		vExpect("BLOCKED", "fail:C15/C19: after a divider fault the simplified discipline never completes (a goroutine blocks), whether or not Err() is being read")
	} else {
		vExpect("LASSO", "fail:C16: Simple.Stop never completes (a goroutine spins)")
		vExpect("BLOCKED", "fail:C16: Simple.Stop never completes (a goroutine blocks)")
	}
	vTickBudget(4)
	vFairTicks()
	vSleepBudget(2)
	vExpect("HORIZON", "ok") // GracefulStop with an input that is never closed does not end (documented)
	vTermWatch(s.err, s.output, s.feedback)
	vRunSpawned(1) // Simple.main
	vRunLeftoverSpawned()
	vReach("main returned")
	nh := 0
	for i := 2; i < vSpawnCount(); i++ {
		if vSpawnedIs(i, "handler") {
			nh++
		}
	}
	vAssert(nh == H, "C01/C19: Simple.main starts exactly HandlersQuantity handlers")
	vAssert(handlersRun, "C07: Simple.main waits for its handlers")
	vAssert(vWaitCount() == 0, "C16/C19: when Simple.main completes no handler (hence no Handle call) is running")
	vAssert(running == 0, "C16: no Handle call is running after completion")
	vAssert(vAnd(vIsClosed(s.err), vIsClosed(s.output), vIsClosed(s.feedback)), "C19: Simple.main closes err, output and feedback")
	_ = handles
	if how == 3 && then == 0 {
		vAssert(len(s.err) == 1, "C15: the simplified discipline leaves exactly one error value on Err()")
		v, ok := <-s.err
		vAssert(vAnd(ok, v == ErrDividerBad), "C15: the simplified discipline reports ErrDividerBad")
		vReach("error termination")
	}
}

// Simple.handler: receive -> Handle(that item) -> feed back that item's priority; every
// blocking operation is abandoned when the context is cancelled.
// gosym: mode=int
func VerifC01_v1simple_handler() {
	K := vParam("K", 2)
	type ev struct {
		kind int
		item int
		prio uint
	}
	var log []ev
	cancelled := false
	ctx, cancel := context.WithCancel(context.Background())
	cancelIn := vChoose("cancel-in-handle", K+1) // K: never inside Handle
	var handleCtx []context.Context
	handle := func(c context.Context, item int) {
		handleCtx = append(handleCtx, c)
		log = append(log, ev{kind: 0, item: item})
		if len(log)/3 == cancelIn && !cancelled {
			cancelled = true
			cancel()
		}
	}
	out := make(chan Prioritized[int], K)
	// the feedback channel has room, or it is full and nobody reads it any more (the wrapped discipline is stopped before
	// the handlers' context is cancelled): then only the cancellation can end the handler's feedback write
	fbcap := K
	if vChoose("feedback-stalled", 2) == 1 {
		fbcap = 0
	}
	fb := make(chan uint, fbcap)
	vOnBlock(fb, func() {
		if cancelled {
			vDecline()
			return
		}
		cancelled = true
		cancel()
	})
	var items []int
	var prios []uint
	for k := 0; k < K; k++ {
		it, p := vNondetInt("item"), vNondetUint("prio")
		items, prios = append(items, it), append(prios, p)
		out <- Prioritized[int]{Item: it, Priority: p}
	}
	// as in Simple.main: the handlers' context is DERIVED from the user's context (here: never cancelled)
	s := &Simple[int]{opts: SimpleOpts[int]{Ctx: context.Background(), Handle: handle}, output: out, feedback: fb, wg: &sync.WaitGroup{}}
	vKnownFields(s, "opts priority breaker graceful output feedback wg err")
	s.wg.Add(1)
	vOnRecv(out, func(v any, ok bool) {
		if ok {
			x := v.(Prioritized[int])
			log = append(log, ev{kind: 1, item: x.Item, prio: x.Priority})
		}
	})
	vOnSend(fb, func(v any) { log = append(log, ev{kind: 2, prio: v.(uint)}) })
	vOnBlock(out, func() {
		// nothing more to handle: the discipline is being stopped
		if cancelled {
			vDecline()
			return
		}
		cancelled = true
		cancel()
	})
	vExpect("BLOCKED", "fail:C16/C19: a handler blocks for ever although its context is cancelled")
	s.handler(ctx)
	vAssert(vWaitCount() == 0, "C19: a returning handler signs off from the WaitGroup")
	vReach("handler returned")
	vAssert(cancelled, "C19: the handler returns only when its context is cancelled")
	// Stop() cancels the handlers' context: a Handle that honours ITS context must see that cancellation
	for _, c := range handleCtx {
		seen := false
		select {
		case <-c.Done():
			seen = true
		default:
		}
		vAssert(seen, "C16: the context handed to Handle is cancelled when the handlers' context is (Stop reaches a running Handle)")
	}
	n := len(log) / 3
	for k := 0; k < n; k++ {
		a, b := log[3*k], log[3*k+1]
		vAssert(vAnd(a.kind == 1, a.item == items[k], a.prio == prios[k]), "C02: items are taken in the order they were handed out")
		vAssert(vAnd(b.kind == 0, b.item == items[k]), "C02: Handle is invoked exactly once per item, with that item")
		if 3*k+2 < len(log) {
			c := log[3*k+2]
			vAssert(vAnd(c.kind == 2, c.prio == prios[k]), "C01: the handler feeds back exactly the priority of the item it handled, after Handle returned")
		}
	}
}
