package priority

// C18 (v1; ported from the v2 harness): handler-quantity helpers of priority/utils.go vs. their definition.

func c18Catalog(i int) []uint {
	switch i {
	case 0:
		return []uint{3, 2, 1}
	case 1:
		return []uint{7, 5, 3, 1}
	case 2:
		return []uint{70, 20, 10}
	case 3:
		return []uint{10, 7, 6, 1}
	case 4:
		return []uint{4, 3, 2, 1}
	case 5:
		return []uint{2, 1}
	case 6:
		return []uint{1}
	}
	vAssume(false)
	return nil
}

// symbolic distinct priorities, sorted descending, then handed to the code under
// test in an arbitrary order (all permutations)
func c18Priorities(n int) (sorted []uint, shuffled []uint) {
	sorted = make([]uint, 0, n)
	for i := 0; i < n; i++ {
		sorted = append(sorted, vNondetUint("p"))
	}
	vDistinct(sorted...)
	for i := 1; i < n; i++ {
		vAssume(sorted[i-1] > sorted[i])
	}
	shuffled = make([]uint, 0, n)
	used := make([]bool, n)
	for i := 0; i < n; i++ {
		k := vChoose("perm", n-i)
		for j := 0; j < n; j++ {
			if used[j] {
				continue
			}
			if k == 0 {
				used[j] = true
				shuffled = append(shuffled, sorted[j])
				break
			}
			k--
		}
	}
	return
}

// the definition, evaluated by the harness: every member of every non-empty
// order-preserving subset of the list sorted high->low gets >= 1 BY LOOKUP
func c18Definition(sorted []uint, d Divider, q uint) bool {
	n := len(sorted)
	ok := true
	for mask := 1; mask < 1<<n; mask++ {
		var sub []uint
		for i := 0; i < n; i++ {
			if mask&(1<<i) != 0 {
				sub = append(sub, sorted[i])
			}
		}
		dist := d(sub, q, map[uint]uint{})
		for _, p := range sub {
			if dist[p] == 0 {
				ok = false
			}
		}
	}
	return ok
}

// gosym: mode=int
func VerifC18_nonfatal_fair() {
	sorted, shuffled := c18Priorities(vParam("n", 3))
	q := vNondetUint("q")
	got := IsNonFatalConfig(shuffled, FairDivider, q)
	want := c18Definition(sorted, FairDivider, q)
	vAssert(got == want, "IsNonFatalConfig(Fair) agrees with the subset definition")
	vReach("end")
}

// Rate with uninterpreted float arithmetic: holds for ANY value of the float
// expressions, so a pass needs no float reasoning at all; a counterexample here is
// only a candidate and is refined by VerifC18_nonfatal_rate_exact.
// gosym: mode=bv fp=uf
func VerifC18_nonfatal_rate_uf() {
	sorted, shuffled := c18Priorities(vParam("n", 2))
	q := vNondetUint("q")
	got := IsNonFatalConfig(shuffled, RateDivider, q)
	want := c18Definition(sorted, RateDivider, q)
	vAssert(got == want, "IsNonFatalConfig(Rate) agrees with the subset definition")
	vReach("end")
}

// gosym: mode=bv fp=exact solver=cvc5
func VerifC18_nonfatal_rate_exact() {
	list := c18Catalog(vParam("list", 0))
	q := vNondetUint("q")
	vAssume(q < uint(1)<<uint(vParam("Qbits", 4)))
	got := IsNonFatalConfig(list, RateDivider, q)
	want := c18Definition(list, RateDivider, q)
	vAssert(got == want, "IsNonFatalConfig(Rate) agrees with the subset definition")
	vReach("end")
}

// IsSuitableConfig => IsNonFatalConfig, and monotone in the limit (floats: only the
// comparisons are interpreted; the statement is structural)
// gosym: mode=int fp=uf
func VerifC18_suitable_implies_nonfatal() {
	_, shuffled := c18Priorities(vParam("n", 2))
	q := vNondetUint("q")
	l1 := vNondetFloat("l1")
	l2 := vNondetFloat("l2")
	vAssume(l1 == l1) // not NaN
	vAssume(l2 == l2)
	vAssume(l1 <= l2)
	s1 := IsSuitableConfig(shuffled, FairDivider, q, l1)
	if s1 {
		vReach("suitable")
		vAssert(IsNonFatalConfig(shuffled, FairDivider, q), "IsSuitableConfig implies IsNonFatalConfig")
		vAssert(IsSuitableConfig(shuffled, FairDivider, q, l2), "IsSuitableConfig is monotone in the limit")
	}
	vReach("end")
}

// exact-float refinement of the implication / monotonicity on a catalogue (concrete list,
// symbolic quantity and limits)
// gosym: mode=bv fp=exact solver=cvc5
func VerifC18_suitable_exact() {
	list := c18Catalog(vParam("list", 5))
	q := vNondetUint("q")
	vAssume(q < uint(1)<<uint(vParam("Qbits", 3)))
	l1 := vNondetFloat("l1")
	l2 := vNondetFloat("l2")
	vAssume(vAnd(l1 >= 0, l1 <= 100, l2 >= 0, l2 <= 100, l1 <= l2))
	var dv Divider = FairDivider
	if vChoose("divider", 2) == 1 {
		dv = RateDivider
	}
	if IsSuitableConfig(list, dv, q, l1) {
		vReach("suitable")
		vAssert(IsNonFatalConfig(list, dv, q), "IsSuitableConfig implies IsNonFatalConfig")
		vAssert(IsSuitableConfig(list, dv, q, l2), "IsSuitableConfig is monotone in the limit")
	}
	vReach("end")
}

// The four PickUp loops against an ARBITRARY predicate on [0,M]: a table of unconstrained booleans,
// looked up without forking (so it behaves as an uninterpreted predicate, but its values are plain
// model constants and every counterexample can be replayed, also natively). Valid for every divider.
var c18Table []bool

func c18P(q uint) bool {
	r := false
	for k := range c18Table {
		r = vOr(r, vAnd(q == uint(k), c18Table[k]))
	}
	return r
}

func c18PredNF(combinations [][]uint, d Divider, quantity uint) bool {
	return c18P(quantity)
}

func c18PredS(combinations [][]uint, priorities []uint, d Divider, quantity uint, limit float64) bool {
	return c18P(quantity)
}

func c18CheckMin(r, max uint, M int) {
	if r == 0 {
		for k := uint(1); k <= uint(M); k++ {
			vAssert(vOr(k > max, !c18P(k)), "PickUpMin returns 0 only if no quantity in [1,max] satisfies the predicate")
		}
		return
	}
	vAssert(vAnd(r >= 1, r <= max), "PickUpMin result lies in [1,max]")
	vAssert(c18P(r), "PickUpMin result satisfies the predicate")
	for k := uint(1); k <= uint(M); k++ {
		vAssert(vOr(k >= r, !c18P(k)), "PickUpMin result is the least such quantity")
	}
}

func c18CheckMax(r, max uint, M int) {
	if r == 0 {
		for k := uint(1); k <= uint(M); k++ {
			vAssert(vOr(k > max, !c18P(k)), "PickUpMax returns 0 only if no quantity in [1,max] satisfies the predicate")
		}
		return
	}
	vAssert(vAnd(r >= 1, r <= max), "PickUpMax result lies in [1,max]")
	vAssert(c18P(r), "PickUpMax result satisfies the predicate")
	for k := uint(1); k <= uint(M); k++ {
		vAssert(vOr(k <= r, k > max, !c18P(k)), "PickUpMax result is the greatest such quantity")
	}
}

// gosym: mode=bv fp=uf
func VerifC18_pickup() {
	M := vParam("M", 8)
	_, shuffled := c18Priorities(2)
	max := vNondetUint("max")
	vAssume(max <= uint(M))
	c18Table = nil
	for k := 0; k <= M; k++ {
		c18Table = append(c18Table, vNondetBool("P"))
	}
	vReplace("isNonFatalConfig", c18PredNF)
	vReplace("isSuitableConfig", c18PredS)
	switch vChoose("which", 4) {
	case 0:
		c18CheckMin(PickUpMinNonFatalQuantity(shuffled, FairDivider, max), max, M)
	case 1:
		c18CheckMax(PickUpMaxNonFatalQuantity(shuffled, FairDivider, max), max, M)
	case 2:
		c18CheckMin(PickUpMinSuitableQuantity(shuffled, FairDivider, max, 10.0), max, M)
	case 3:
		c18CheckMax(PickUpMaxSuitableQuantity(shuffled, FairDivider, max, 10.0), max, M)
	}
	vReach("end")
}

// the arguments the PickUp / Is* functions hand to the predicate are the
// combinations of the sorted copy and the caller's divider
// gosym: mode=bv fp=uf
func VerifC18_pickup_args() {
	sorted, shuffled := c18Priorities(vParam("n", 3))
	shuffledCopy := append([]uint{}, shuffled...)
	n := len(sorted)
	seen := 0
	chkCombos := func(combinations [][]uint, d Divider) {
		seen++
		vAssert(len(combinations) == (1<<n)-1, "all 2^n-1 combinations are passed")
		// every combination is a non-empty strictly descending sub-list of the sorted priorities, all different
		for i, c := range combinations {
			vAssert(len(c) >= 1, "combination non-empty")
			for j := 0; j+1 < len(c); j++ {
				vAssert(c[j] > c[j+1], "combination sorted high->low")
			}
			for _, x := range c {
				in := false
				for _, p := range sorted {
					if x == p {
						in = true
					}
				}
				vAssert(in, "combination members are configured priorities")
			}
			for k := 0; k < i; k++ {
				o := combinations[k]
				same := len(o) == len(c)
				if same {
					for j := range c {
						if o[j] != c[j] {
							same = false
						}
					}
				}
				vAssert(!same, "combinations are pairwise different")
			}
		}
		m := map[uint]uint{}
		d([]uint{sorted[0]}, 5, m)
		vAssert(m[sorted[0]] == 5, "the caller's divider is passed through")
	}
	chk := func(combinations [][]uint, d Divider, quantity uint) bool {
		chkCombos(combinations, d)
		return false
	}
	chkS := func(combinations [][]uint, priorities []uint, d Divider, quantity uint, limit float64) bool {
		chkCombos(combinations, d)
		vAssert(len(priorities) == n, "the sorted priorities are passed to the suitability test")
		for i := range priorities {
			if i < n {
				vAssert(priorities[i] == sorted[i], "the priorities passed to the suitability test are the sorted copy")
			}
		}
		vAssert(limit == 12.5, "the caller's limit is passed through")
		return false
	}
	vReplace("isNonFatalConfig", chk)
	vReplace("isSuitableConfig", chkS)
	IsNonFatalConfig(shuffled, FairDivider, 1)
	PickUpMinNonFatalQuantity(shuffled, FairDivider, 1)
	PickUpMaxNonFatalQuantity(shuffled, FairDivider, 1)
	IsSuitableConfig(shuffled, FairDivider, 1, 12.5)
	PickUpMinSuitableQuantity(shuffled, FairDivider, 1, 12.5)
	PickUpMaxSuitableQuantity(shuffled, FairDivider, 1, 12.5)
	// the caller's slice is never reordered
	for i := range shuffled {
		vAssert(shuffled[i] == shuffledCopy[i], "the helpers do not modify the caller's priority slice")
	}
	vReach("end")
}
