package priority

// Black-box run of the v1 discipline through the real New, with AddInput / RemoveInput / GracefulStop issued at
// arbitrary moments. This file deliberately shares NOTHING with common.go (no arbitrary-state constructor, no vEnv):
// it names only the command channels, the graceful breaker and the error channel of the Discipline, so it keeps
// loading - and keeps judging C01 / C02 / C07 / C17 on channel traffic alone - when a change re-organises the
// discipline's bookkeeping (the maps, the per-input records, the counters).

type bbEnv struct {
	n       int
	H       uint
	ps      []uint
	ins     []chan int // the channel currently registered for priority index i
	removed []bool
	closed  []bool
	queue   map[chan int][]int // items read from a channel and not yet written out, oldest first
	owner   map[chan int]int   // priority index a channel was registered under when it was read
	G       []uint             // handed out minus released, per priority index
}

func bbIdx(e *bbEnv, p uint) int {
	for i, q := range e.ps {
		if p == q {
			return i
		}
	}
	return -1
}

func bbSum(msg string, xs ...uint) uint {
	s := uint(0)
	for _, x := range xs {
		t := s + x
		vAssert(t >= s, msg+" (sum does not wrap)")
		s = t
	}
	return s
}

func (e *bbEnv) watch(ch chan int, idx int) {
	e.owner[ch] = idx
	vOnRecv(ch, func(v any, ok bool) {
		if ok {
			e.queue[ch] = append(e.queue[ch], v.(int))
		}
	})
}

// gosym: mode=int
func VerifBB_v1_run() {
	n := vParam("n", 2)
	H := uint(vParam("H", 2))
	J := vParam("J", 1)
	C := vParam("C", 2)
	e := &bbEnv{n: n, H: H, queue: map[chan int][]int{}, owner: map[chan int]int{}}
	for i := 0; i < n; i++ {
		e.ps = append(e.ps, vNondetUint("p"))
	}
	vDistinct(e.ps...)
	for i := 1; i < n; i++ {
		vAssume(e.ps[i-1] > e.ps[i])
	}
	e.removed = make([]bool, n)
	e.closed = make([]bool, n)
	e.G = make([]uint, n)
	inputs := map[uint]<-chan int{}
	for i := 0; i < n; i++ {
		ch := make(chan int, J+1)
		e.ins = append(e.ins, ch)
		inputs[e.ps[i]] = ch
		for k := vChoose("items", J+1); k > 0; k-- {
			ch <- vNondetInt("item")
		}
		if vChoose("closed", 2) == 1 {
			close(ch)
			e.closed[i] = true
		}
		e.watch(ch, i)
	}
	fb := make(chan uint, 1)
	out := make(chan Prioritized[int], 1)
	d, err := New(Opts[int]{Divider: FairDivider, Feedback: fb, HandlersQuantity: H, Inputs: inputs, Output: out})
	vAssume(err == nil)
	vSink(out)
	type cmd struct {
		add bool
		k   int
		ch  chan int
	}
	var cmds []cmd
	for c := 0; c < C; c++ {
		k := vChoose("target", n)
		switch vChoose("cmd", 3) {
		case 1: // add / replace / re-add: a channel that is already closed, with or without an item
			ch := make(chan int, 2)
			if vChoose("with-item", 2) == 1 {
				ch <- vNondetInt("item")
			}
			close(ch)
			cmds = append(cmds, cmd{add: true, k: k, ch: ch})
		case 2:
			cmds = append(cmds, cmd{k: k})
		}
	}
	var pendingAdds, pendingRmvs []cmd
	next := 0
	issue := func() {
		for next < len(cmds) && vChoose("call-now", 2) == 1 {
			c := cmds[next]
			next++
			if c.add {
				vPark(d.inputAdds, inputAdd[int]{channel: c.ch, priority: e.ps[c.k]})
				pendingAdds = append(pendingAdds, c)
			} else {
				vPark(d.inputRmvs, e.ps[c.k])
				pendingRmvs = append(pendingRmvs, c)
			}
		}
	}
	issue()
	forbid := func(ch chan int, what string) {
		vOnRecv(ch, func(v any, ok bool) { vAssert(false, "C17: "+what) })
	}
	vOnSend(out, func(v any) {
		x := v.(Prioritized[int])
		inflight := bbSum("in-flight total", e.G...)
		vAssert(inflight+1 > inflight && inflight+1 <= e.H, "C01: handing out an item keeps in-flight <= HandlersQuantity (also across AddInput / RemoveInput)")
		j := bbIdx(e, x.Priority)
		vAssert(j >= 0, "C02: the item carries the priority of a configured input")
		if j >= 0 {
			// the oldest unwritten item read from a channel that was registered under this priority when it was read
			found := false
			for ch, q := range e.queue {
				if e.owner[ch] == j && len(q) > 0 && !found {
					found = true
					vAssert(x.Item == q[0], "C02/C17: the item written is the oldest item read under its priority and not yet written (no reordering, no wrong tag, also after AddInput / RemoveInput)")
					e.queue[ch] = q[1:]
				}
			}
			vAssert(found, "C02: every output write is preceded by an input read under that priority (nothing fabricated or duplicated)")
			e.G[j]++
		}
		issue()
	})
	vOnRecv(d.inputAdds, func(v any, ok bool) {
		if !ok || len(pendingAdds) == 0 {
			return
		}
		a := pendingAdds[0]
		pendingAdds = pendingAdds[1:]
		if !e.removed[a.k] {
			forbid(e.ins[a.k], "after AddInput returned the channel previously registered for the priority is never read again")
		}
		e.ins[a.k] = a.ch
		e.removed[a.k] = false
		e.closed[a.k] = true
		e.watch(a.ch, a.k)
	})
	vOnRecv(d.inputRmvs, func(v any, ok bool) {
		if !ok || len(pendingRmvs) == 0 {
			return
		}
		r := pendingRmvs[0]
		pendingRmvs = pendingRmvs[1:]
		if !e.removed[r.k] {
			e.removed[r.k] = true
			forbid(e.ins[r.k], "after RemoveInput returned the discipline never again reads from that channel")
		}
	})
	vOnRecv(fb, func(v any, ok bool) {
		if ok {
			if i := bbIdx(e, v.(uint)); i >= 0 {
				e.G[i]--
			}
		}
	})
	vOnBlock(fb, func() {
		if bbSum("in flight", e.G...) == 0 {
			vDecline()
			return
		}
		i := vChoose("release", e.n)
		vAssume(e.G[i] >= 1)
		fb <- e.ps[i]
	})
	vBreakSignal(d.graceful) // GracefulStop() has been called; it returns when main completes
	vTickBudget(4)
	vFairTicks()
	vSleepBudget(vParam("K", 3))
	vExpect("HORIZON", "ok") // some registered input stays open: GracefulStop does not return (documented)
	vExpect("TICK-HORIZON", "ok")
	vExpect("BLOCKED", "fail:C06/C07/C17: the discipline waits for a release although nothing is in flight (accounting lost across AddInput / RemoveInput)")
	vTermWatch(d.err)
	vRunSpawned(0)
	vRunLeftoverSpawned()
	vReach("returned")
	g := bbSum("in flight at return", e.G...)
	vAssert(g == 0, "C07/C17: GracefulStop returns only after every delivered item was released")
	for i := range e.ps {
		if !e.removed[i] {
			vAssert(e.closed[i], "C07/C17: GracefulStop returns only when every input that is still registered has been closed")
			vAssert(len(e.ins[i]) == 0, "C02/C06/C07/C17: GracefulStop returns only when every input that is still registered has been emptied (nothing written before the close is lost or left undelivered)")
			vAssert(len(e.queue[e.ins[i]]) == 0, "C02/C17: everything read from a registered input was written out before GracefulStop returned")
		}
	}
	vAssert(vAnd(vIsClosed(d.err), len(d.err) == 0), "C07: normal termination closes err without an error value")
}
