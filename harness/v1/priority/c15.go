package priority

import "github.com/akramarenkov/cqos/priority/internal/common"

// C15 / C05-init (v1): the constructor sorts the priorities before the (unchecked)
// strategic division and starts exactly one goroutine.

// gosym: mode=int
func VerifC15_v1_new() {
	n := vParam("n", 2)
	e := &vEnv{n: n, faultAt: -1, honest: true}
	vE = e
	e.H = vNondetUint("H")
	all := make([]uint, 0, n+1)
	for i := 0; i < n; i++ {
		all = append(all, vNondetUint("p"))
	}
	all = append(all, vNondetUint("foreign"))
	vDistinct(all...)
	for i := 1; i < n; i++ {
		vAssume(all[i-1] > all[i])
	}
	e.ps, e.foreign = all[:n], all[n]
	e.removed = make([]bool, n)
	inputs := map[uint]<-chan int{}
	used := make([]bool, n)
	for i := 0; i < n; i++ {
		k := vChoose("perm", n-i)
		for j := 0; j < n; j++ {
			if used[j] {
				continue
			}
			if k == 0 {
				used[j] = true
				inputs[e.ps[j]] = make(chan int, 1)
				break
			}
			k--
		}
	}
	fb := make(chan uint)
	out := make(chan Prioritized[int])
	d, err := New(Opts[int]{Divider: vStubDivider, Feedback: fb, HandlersQuantity: e.H, Inputs: inputs, Output: out})
	if err != nil {
		vAssert(e.H == 0, "v1 New rejects only invalid options")
		vAssert(vSpawnCount() == 0, "C19: no goroutine is started when New fails")
		vReach("rejected")
		return
	}
	vReach("accepted")
	vAssert(len(d.priorities) == n, "every configured priority is listed once")
	for i := range d.priorities {
		vAssert(d.priorities[i] == e.ps[i], "C05/C15: priorities are sorted from highest to lowest before every division")
	}
	var st []uint
	for _, p := range e.ps {
		st = append(st, d.strategic[p])
		in, ok := d.inputs[p]
		vAssert(vAnd(ok, !in.Drained, in.Channel == inputs[p]), "every input is registered under its own priority, not drained")
	}
	vAssert(vSumAssert("strategic", st...) == e.H, "C01: the strategic shares sum to HandlersQuantity (sum-preserving divider)")
	for _, p := range e.ps {
		vAssert(d.actual[p] == 0, "C01: nothing is in flight when the discipline is created")
	}
	vAssert(vSpawnCount() == 1 && vSpawnedIs(0, "main"), "C19: exactly one goroutine (main) is started by New")
}

// C15: a divider fault at ANY division made for a round - the first calcTactic, a retry of
// calcTactic after the round had to wait for a release, either division of recalcTactic - in
// any state of the discipline: the round fails with ErrDividerBad and hands out nothing more.
// gosym: mode=int
func VerifC15_round_fault() {
	n := vParam("n", 2)
	e := vRoundSetup(n, -1)
	d := e.d
	for i, p := range e.ps {
		in := d.inputs[p]
		switch vChoose("input", 3) {
		case 0: // idle
			in.Drained = false
		case 1: // has data
			in.Drained = false
			e.preload(i, 1+vChoose("items", 2))
		case 2:
			in.Drained = true
			close(e.ins[i])
		}
		d.inputs[p] = in
	}
	e.faultAt = vChoose("fault", 4) // call index within the round
	vOnBlock(e.fb, func() {
		if vSumAssert("in flight", e.G...) == 0 {
			vDecline() // nothing left to release
			return
		}
		i := vChoose("release", e.n)
		vAssume(e.G[i] >= 1)
		e.fb <- e.ps[i]
	})
	vExpect("BLOCKED", "ok") // every handler idle and nothing to release: the round waits (not the subject here)
	_, err := d.base()
	if e.faultSeen {
		vAssert(err == ErrDividerBad, "C15: a divider fault at any division of a round makes the round fail with ErrDividerBad")
		vAssert(e.sendsAfterFault == 0, "C15: nothing is handed out after a divider fault")
		vReach("fault")
		return
	}
	vAssert(err == nil, "C15: no error without a divider fault")
	vReach("nofault")
}

// C15 / C19 (v1): a run from New in which the divider (sum-preserving up to then) breaks the sum
// rule at one later call. Nobody reads Err() meanwhile: the discipline must stop handing out, wait
// for the releases, close its channels and leave exactly ErrDividerBad on Err().
// gosym: mode=int
func VerifC15_v1_run_fault() {
	n := vParam("n", 2)
	H := uint(vParam("H", 2))
	J := vParam("J", 1)
	e := &vEnv{n: n, faultAt: -1, H: H, honest: true}
	vE = e
	all := make([]uint, 0, n+1)
	for i := 0; i < n+1; i++ {
		all = append(all, vNondetUint("p"))
	}
	vDistinct(all...)
	for i := 1; i < n; i++ {
		vAssume(all[i-1] > all[i])
	}
	e.ps, e.foreign = all[:n], all[n]
	e.removed = make([]bool, n)
	inputs := map[uint]<-chan int{}
	for i := 0; i < n; i++ {
		ch := make(chan int, J+1)
		e.ins = append(e.ins, ch)
		inputs[e.ps[i]] = ch
		for k := 0; k < J; k++ {
			ch <- vNondetInt("item")
		}
		if vChoose("closed", 2) == 1 {
			close(ch)
		}
	}
	e.fb = make(chan uint, 1)
	e.out = make(chan Prioritized[int], 1)
	e.faultAt = 1 + vChoose("fault", 3) // call 0 is the constructor's division
	if uint(n) > H {
		vExpect("NOREACH", "ok") // fewer handlers than priorities: some share is zero, outside the documented precondition
	}
	d, err := New(Opts[int]{Divider: vStubDivider, Feedback: e.fb, HandlersQuantity: H, Inputs: inputs, Output: e.out})
	vAssume(err == nil)
	// the documented precondition of v1: every share >= 1 (IsNonFatalConfig)
	for _, p := range e.ps {
		vAssume(d.strategic[p] >= 1)
	}
	e.d = d
	e.G = make([]uint, n)
	vSink(e.out)
	e.monitors()
	vOnBlock(e.fb, func() {
		if vSumAssert("in flight", e.G...) == 0 {
			vDecline() // nothing left to release
			return
		}
		i := vChoose("release", e.n)
		vAssume(e.G[i] >= 1)
		e.fb <- e.ps[i]
	})
	vTickBudget(6)
	vFairTicks()
	vSleepBudget(3)
	vExpect("HORIZON", "ok") // no fault happened and nobody asked the discipline to stop: it idles (v1 never ends by itself)
	vExpect("TICK-HORIZON", "ok")
	vExpect("BLOCKED", "fail:C15/C19: after a divider fault the discipline terminates once the in-flight items are released, whether or not Err() is being read")
	vTermWatch(d.err)
	vRunSpawned(0)
	vRunLeftoverSpawned()
	vReach("terminated")
	vAssert(e.faultSeen, "C07: without Stop/cancel/GracefulStop/fault the v1 discipline does not terminate")
	vAssert(e.sendsAfterFault == 0, "C15: nothing is handed out after a divider fault")
	vAssert(vIsClosed(d.err), "C15/C19: error termination closes err")
	vAssert(len(d.err) == 1, "C15: exactly one error value is left on Err()")
	v, ok := <-d.err
	vAssert(vAnd(ok, v == ErrDividerBad), "C15: the reported error is ErrDividerBad")
	g := vSumAssert("in flight at termination", e.G...)
	vAssert(g == 0, "C15: the discipline terminates only after the in-flight items were released")
	vAssert(vTickersRunning() == 0, "C19: the interrupter ticker is not left running when main returns")
}

// C05 / C15, boundary instance: lists LONGER than the symbolic bound (sorting code tends to switch algorithm at a
// size threshold). Concrete distinct values in a few arrangements; the constructor must hand the divider a
// strictly descending list. No symbolic data - the paths are the arrangement choices.
// gosym: mode=int
func VerifC15_sort_large() {
	n := vParam("n", 9)
	vals := make([]uint, n)
	switch vChoose("arrangement", 4) {
	case 0: // ascending
		for i := range vals {
			vals[i] = uint(i + 1)
		}
	case 1: // descending already
		for i := range vals {
			vals[i] = uint(n - i)
		}
	case 2: // interleaved
		for i := range vals {
			if i%2 == 0 {
				vals[i] = uint(i/2 + 1)
			} else {
				vals[i] = uint(n - i/2)
			}
		}
	case 3: // rotated
		for i := range vals {
			vals[i] = uint((i+n/2)%n + 1)
		}
	}
	sorted := append([]uint{}, vals...)
	common.SortPriorities(sorted)
	for i := 0; i+1 < n; i++ {
		vAssert(sorted[i] > sorted[i+1], "C05/C15: priorities are sorted from highest to lowest before every division")
	}
	copyOf := createSortedCopy(vals)
	for i := 0; i+1 < n; i++ {
		vAssert(copyOf[i] > copyOf[i+1], "C18: the helpers evaluate the divider on the list sorted from highest to lowest")
	}
	vReach("end")
}
