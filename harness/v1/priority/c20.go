package priority

// C20 (v1 priority): happens-before check over a complete run with handlers that
// read Output / write Feedback from their own goroutines and a control goroutine
// that calls AddInput, RemoveInput and GracefulStop while the discipline works.

// gosym: mode=int
func VerifC20_v1_priority() {
	H := uint(vParam("H", 2))
	J := vParam("J", 1)
	vRaceWatch()
	vRole("creator")
	in1 := make(chan int, J)
	in2 := make(chan int, J)
	in3 := make(chan int, J)
	out := make(chan Prioritized[int], 1)
	fb := make(chan uint, 1)
	inputs := map[uint]<-chan int{2: in1, 1: in2}
	d, err := New(Opts[int]{Divider: FairDivider, Feedback: fb, HandlersQuantity: H,
		Inputs: inputs, Output: out})
	vAssume(err == nil)
	vTouchW(inputs) // the options are the caller's: once New has returned it may reuse the map it passed
	vRole("handler")
	vRole("creator")
	vRole("control")
	vRole("creator")
	vRole("producer")
	for j := 0; j < J; j++ {
		in1 <- vNondetInt("item")
		in2 <- vNondetInt("item")
		in3 <- vNondetInt("item")
	}
	close(in1)
	close(in2)
	close(in3)
	vRole("creator")
	var held []uint
	handler := func() {
		acted := false
		vRole("handler")
		if len(out) > 0 {
			x := <-out
			held = append(held, x.Priority)
			acted = true
		}
		if len(held) > 0 && len(fb) < cap(fb) {
			fb <- held[0]
			held = held[1:]
			acted = true
		}
		vRole("goroutine0")
		if !acted {
			vDecline()
		}
	}
	vOnBlock(out, handler)
	vOnBlock(fb, handler)
	step := 0
	vReplace("getLimitedFeedback", func(dd *Discipline[int]) {
		// the control goroutine issues its next call between two rounds (the command channels are
		// unbuffered: the call returns when the scheduling goroutine takes the command at its next round)
		if vChoose("control-acts", 2) == 1 {
			vRole("control")
			switch step {
			case 0:
				vWaiters(dd.inputAdds, 1)
				dd.AddInput(in3, 3)
				vPark(dd.inputAdds, vLogTake(dd.inputAdds))
			case 1:
				vWaiters(dd.inputRmvs, 1)
				dd.RemoveInput(1)
				vPark(dd.inputRmvs, vLogTake(dd.inputRmvs))
			case 2:
				vBreakSignal(dd.graceful)
			}
			step++
			vRole("goroutine0")
		}
		handler2 := len(out) > 0
		if handler2 {
			handler()
		}
		dd.getLimitedFeedback()
	})
	vTickBudget(4)
	vFairTicks()
	vSleepBudget(3)
	vExpect("HORIZON", "ok")
	vExpect("TICK-HORIZON", "ok")
	vExpect("ASSUME-FALSE", "ok")
	vRunSpawned(0)
	vRole("creator")
	<-d.Err()
	vCheckRaces()
	vReach("end")
}
