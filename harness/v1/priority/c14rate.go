package priority

import (
	"math"

	"github.com/akramarenkov/cqos/priority/internal/common"
)

// catalogue of concrete priority lists (tests, READMEs, plus lists on which Rate
// truncates before the last entry)
func c14Catalog(i int) []uint {
	switch i {
	case 0:
		return []uint{3, 2, 1}
	case 1:
		return []uint{70, 20, 10}
	case 2:
		return []uint{4, 3, 2, 1}
	case 3:
		return []uint{7, 5, 3, 1}
	case 4:
		return []uint{2, 1}
	case 5:
		return []uint{1}
	case 6:
		return []uint{100, 10, 1}
	case 7:
		return []uint{10, 7, 6, 1}
	case 8:
		return []uint{6, 5, 4, 3, 2, 1}
	case 9:
		return []uint{5, 4, 3, 2, 1}
	case 10:
		return []uint{3, 1}
	case 11:
		return []uint{12, 9, 4, 2}
	case 12:
		return []uint{1000, 100, 10, 1}
	case 13:
		return []uint{8, 7, 6, 5, 4, 3, 2, 1}
	case 14:
		return []uint{9, 7, 5, 3, 1}
	case 15:
		return []uint{10, 9, 8, 7, 6, 5, 4, 3, 2, 1}
	}
	vAssume(false)
	return nil
}

func c14Dividend() uint {
	D := vNondetUint("D")
	vAssume(D < uint(1)<<uint(vParam("Dbits", 16)))
	// Dbase > 0: the dividends 2^Dbase + d, d < 2^Dbits (magnitudes at which float64 no longer holds every integer)
	if b := vParam("Dbase", 0); b > 0 {
		D += uint(1) << uint(b)
	}
	return D
}

// the float sub-expression of Rate, written exactly as in divider.go
func c14Part(D, S, p uint) uint {
	base := float64(D) / float64(S)
	return uint(math.Round(base * float64(p)))
}

// L1 (exact IEEE-754): the rounded proportional part is within 1/2 of the exact share.
// One instance per (list, position).
// gosym: mode=bv fp=exact solver=cvc5
func VerifC14_rate_L1() {
	list := c14Catalog(vParam("list", 0))
	k := vParam("k", 0)
	if k >= len(list) {
		vExpect("NOREACH", "ok")
		return
	}
	D := c14Dividend()
	S := common.SumPriorities(list)
	p := list[k]
	part := c14Part(D, S, p)
	vAssert(part <= D, "L1: part does not exceed the dividend")
	a, b := 2*S*part, 2*D*p
	vAssert(vOr(vAnd(a >= b, a-b <= S), vAnd(b >= a, b-a <= S)), "L1: |part - D*p/S| <= 1/2")
	vReach("end")
}

func c14Incs(list []uint, D uint) []uint {
	// a pre-filled distribution (arbitrary small values, chosen or not): Rate ADDS to what is there, and what it
	// adds - including where the undistributed rest goes - does not depend on what was there
	dist := map[uint]uint{}
	pre := make([]uint, len(list))
	if vChoose("prefilled", 2) == 1 {
		for i, p := range list {
			pre[i] = vNondetUint("pre")
			vAssume(pre[i] < 1<<16)
			dist[p] = pre[i]
		}
	}
	RateDivider(list, D, dist)
	inc := make([]uint, len(list))
	sum := uint(0)
	for i, p := range list {
		inc[i] = dist[p] - pre[i]
		sum += inc[i]
	}
	vAssert(sum == D, "Rate adds exactly the dividend in total")
	vAssert(len(dist) <= len(list), "no entry for a key that is not listed")
	return inc
}

func c14ShareAsserts(list []uint, D uint, inc []uint) {
	n := uint(len(list))
	S := common.SumPriorities(list)
	for i := 0; i+1 < len(list); i++ {
		vAssert(inc[i] >= inc[i+1], "Rate increments are non-increasing along the list")
	}
	base := vParam("Dbase", 0)
	if base > 60 {
		return // 2*D*p would wrap in the oracle's own machine arithmetic: conservation and order only
	}
	for i, p := range list {
		a, b := 2*S*inc[i], 2*D*p
		within := vOr(vAnd(a >= b, a-b <= n*S), vAnd(b >= a, b-a <= n*S))
		if base >= 54 {
			// float64 holds only every 4th integer here; a separate message, because this part of the statement is a recorded finding
			vAssert(within, "every Rate increment is within n/2 of the exact proportional share (dividends of 2^54 and above)")
			continue
		}
		vAssert(within, "every Rate increment is within n/2 of the exact proportional share")
	}
}

// L2: the real Rate with its float expression abstracted (uninterpreted) and L1 as
// the only hypothesis about it.
// gosym: mode=int fp=uf solver=cvc5
func VerifC14_rate_L2() {
	list := c14Catalog(vParam("list", 0))
	D := c14Dividend()
	S := common.SumPriorities(list)
	for _, p := range list {
		part := c14Part(D, S, p)
		a, b := 2*S*part, 2*D*p
		vAssume(part <= D)
		vAssume(vOr(vAnd(a >= b, a-b <= S), vAnd(b >= a, b-a <= S)))
	}
	inc := c14Incs(list, D)
	c14ShareAsserts(list, D, inc)
	vReach("end")
}

// direct cross-check under exact floats (small dividends)
// gosym: mode=bv fp=exact solver=cvc5
func VerifC14_rate_exact() {
	list := c14Catalog(vParam("list", 0))
	D := c14Dividend()
	inc := c14Incs(list, D)
	c14ShareAsserts(list, D, inc)
	vReach("end")
}
