package join

import (
	"context"
	"time"

	"github.com/akramarenkov/breaker"
	"github.com/akramarenkov/cqos/internal/general"
)

// C10 (v1 join; generated from the v2 harness): buffered elements are flushed within Timeout + interrupt interval
// (+ latency). Decided in three parts:
//  (a) calcInterruptInterval: tau*d <= Timeout < (tau+1)*d with d = floor(100/inaccuracy),
//      errors exactly in the documented cases (pure arithmetic, Timeout symbolic);
//  (b) the ticker is created with exactly that period;
//  (c) step obligations on the real loop(): from an ARBITRARY buffer state in which every
//      buffered element was accepted no earlier than passAt, one iteration (a tick or an
//      arrival) keeps that invariant, a tick read at `now` with now-passAt >= Timeout
//      flushes the whole buffer, and an arrival never moves passAt unless it flushes.
// Together with the time.Ticker contract (a tick at most tau+lambda after the previous
// one while the loop is not blocked) this bounds the stay of an element by
// Timeout + tau + c*lambda <= Timeout*(1+1/d) + c*lambda (argument in DESIGN 7 C10).

// gosym: mode=int
func VerifC10_interval() {
	inacc := uint(vParam("inacc", 25))
	timeout := time.Duration(vNondetI64("timeout"))
	tau, err := calcInterruptIntervalNonPositiveAllowed(timeout, inacc)
	d := int64(0)
	if inacc != 0 {
		d = int64(100 / inacc)
	}
	switch {
	case timeout <= 0:
		vAssert(vAnd(err == nil, tau == 0), "C10: no timeout, no interrupt interval")
	case inacc == 0:
		vAssert(err == ErrTimeoutInaccuracyZero, "C10: zero inaccuracy is rejected")
	case d == 0:
		vAssert(err == ErrTimeoutInaccuracyTooBig, "C10: inaccuracy above 100% is rejected")
	default:
		if err != nil {
			vAssert(err == ErrTimeoutTooSmall, "C10: the only other error is a too small timeout")
			vAssert(int64(timeout)/d < int64(general.ReliablyMeasurableDuration), "C10: ErrTimeoutTooSmall only if Timeout/d is below the reliably measurable duration")
		} else {
			t := int64(tau)
			vAssert(t >= int64(general.ReliablyMeasurableDuration), "C10: the interrupt interval is at least the reliably measurable duration")
			vAssert(t*d <= int64(timeout), "C10: interval*d <= Timeout (so Timeout+interval <= Timeout*(1+1/d))")
			vAssert(int64(timeout)-t*d < d, "C10: interval is floor(Timeout/d)")
		}
	}
	vReach("end")
}

// (b) New wires the computed interval into the discipline and loop() into the ticker
// gosym: mode=int
func VerifC10_wiring() {
	inacc := uint(vParam("inacc", 25))
	in := make(chan int, 1)
	close(in)
	timeout := time.Duration(vNondetI64("timeout"))
	vAssume(timeout > 0)
	d, err := New(Opts[int]{Input: in, JoinSize: 2, Timeout: timeout, TimeoutInaccuracy: inacc})
	want, werr := calcInterruptIntervalNonPositiveAllowed(timeout, inacc)
	if inacc == 0 {
		want, werr = calcInterruptIntervalNonPositiveAllowed(timeout, 25)
	}
	if err != nil {
		vAssert(werr != nil, "C10: New fails only when the interval cannot be computed")
		vReach("rejected")
		return
	}
	vAssert(vAnd(werr == nil, d.interruptInterval == want), "C10: the discipline uses the computed interrupt interval")
	vSink(d.output)
	vRunSpawned(0)
	vAssert(vTickerCount() >= 1, "C10: a ticker drives the timeout check")
	vAssert(time.Duration(vTickerPeriod(0)) == want, "C10: the ticker period is the interrupt interval (not the timeout)")
	vReach("end")
}

// (c) one loop iteration from an arbitrary state
// gosym: mode=int
func VerifC10_step() {
	JS := vParam("JS", 3)
	L := vChoose("buffered", JS) // 0..JS-1 elements in the buffer
	nocopy := vChoose("nocopy", 2) == 1
	var released chan struct{}
	if nocopy {
		released = make(chan struct{})
	}
	in := make(chan int, 2)
	hasItem := vChoose("arrival", 2) == 1
	if hasItem {
		in <- vNondetInt("x")
	}
	timeout := time.Duration(vNondetI64("timeout"))
	tau := time.Duration(vNondetI64("tau"))
	vAssume(vAnd(timeout > 0, tau > 0, tau <= timeout))
	d := &Discipline[int]{
		opts:              Opts[int]{Ctx: context.Background(), Input: in, JoinSize: uint(JS), Released: released, Timeout: timeout, TimeoutInaccuracy: 25},
		breaker:           breaker.New(),
		interruptInterval: tau,
		join:              make([]int, 0, JS),
		output:            make(chan []int, 1),
	}
	vKnownFields(d, "opts breaker interruptInterval join output passAt unreleased")
	d.passAt = time.Now()
	P := vNow() // passAt
	accept := make([]int64, 0, JS)
	for i := 0; i < L; i++ {
		d.join = append(d.join, vNondetInt("b"))
		vAdvance()
		accept = append(accept, vNow()) // accepted no earlier than passAt
	}
	vAdvance()
	vSink(d.output)
	sent := 0
	sentLen := 0
	vOnSend(d.output, func(v any) {
		sent++
		sentLen = len(v.([]int))
	})
	vOnRecv(in, func(v any, ok bool) {
		if ok {
			accept = append(accept, vNow())
		}
	})
	if nocopy {
		vOnBlock(released, func() { vPark(released, struct{}{}) })
	}
	var tickRead int64 = -1
	timeouted := false
	vReplace("isTimeouted", func(dd *Discipline[int]) bool {
		r := dd.isTimeouted()
		tickRead = vNow()
		timeouted = r
		vAssert(r == (tickRead-P >= int64(timeout)), "C10: a tick is treated as a timeout exactly when Timeout has passed since passAt")
		return r
	})
	iterations := 0
	check := func() {
		iterations++
		if iterations > 1 {
			vDecline()
			return
		}
		// state after exactly one iteration
		if tickRead >= 0 {
			vReach("tick")
			if timeouted {
				if L > 0 {
					vAssert(vAnd(sent == 1, sentLen == L), "C10: a tick after Timeout flushes the whole buffer")
				}
				vAssert(len(d.join) == 0, "C10: after a timeout flush the buffer is empty")
			} else {
				vAssert(vAnd(sent == 0, len(d.join) == L), "C10: a tick before Timeout changes nothing")
			}
		} else {
			vReach("arrival")
			if L+1 < JS {
				vAssert(vTickerResets() == 0, "C10: an arrival that does not flush leaves the ticker alone (a steady trickle must not push the next tick away)")
				vAssert(sent == 0, "C10: an arrival that does not fill the slice does not flush")
				vAssert(len(d.join) == L+1, "C10: the arrival is buffered")
			} else {
				vAssert(vAnd(sent == 1, sentLen == JS, len(d.join) == 0), "C10: an arrival that fills the slice flushes it")
			}
		}
		// invariant: every element still buffered was accepted no earlier than the current passAt
		pa := vTimeOf(d.passAt)
		if sent == 0 && !(tickRead >= 0 && timeouted) {
			vAssert(pa == P, "C10: passAt moves only on a flush or an empty timeout, never on a mere arrival (a steady trickle cannot postpone the flush)")
		} else {
			vAssert(pa >= P, "C10: passAt never moves backwards")
		}
		for i := range d.join {
			idx := len(accept) - len(d.join) + i
			vAssert(accept[idx] >= pa, "C10: every buffered element was accepted no earlier than passAt")
		}
		vDecline()
	}
	vOnAnyBlock(check)
	if hasItem {
		vTickBudget(0) // exactly one event: the arrival
	} else {
		vTickBudget(1) // exactly one event: the tick
	}
	vExpect("BLOCKED", "ok")
	vExpect("TICK-HORIZON", "ok")
	if !hasItem {
		// nothing arrives: the only event is the tick
	}
	d.loop()
}
