package join

// C20 (v1 join; ported from the v2 harness): happens-before check of a complete run. The consumer receives
// slices in its own goroutine; in no-copy mode it reads and writes the slice
// between delivery and Release(); in copy mode it keeps every slice and writes
// into it at any later time.

// gosym: mode=int
func VerifC20_v1_join() {
	JS := vParam("JS", 2)
	M := vParam("M", 3)
	vRaceWatch()
	vRole("creator")
	in := make(chan int, M)
	nocopy := vChoose("nocopy", 2) == 1
	var released chan struct{}
	if nocopy {
		released = make(chan struct{})
	}
	d, err := New(Opts[int]{Input: in, JoinSize: uint(JS), Released: released})
	vAssume(err == nil)
	vRole("consumer")
	vRole("control")
	vRole("producer")
	for i := 0; i < M; i++ {
		in <- vNondetInt("x")
	}
	close(in)
	vRole("creator")
	var kept [][]int
	consume := func() {
		if len(d.output) == 0 {
			vDecline()
			return
		}
		vRole("consumer")
		s := <-d.Output()
		vTouchR(s)
		if nocopy {
			vPark(released, struct{}{})
		} else {
			vTouchW(s[:cap(s)]) // modifying includes appending into the spare capacity of the slice the consumer owns
			kept = append(kept, s)
			for _, k := range kept {
				vTouchW(k[:cap(k)]) // an old slice is modified while the discipline keeps working
			}
		}
		vRole("goroutine0")
	}
	vOnBlock(d.output, consume)
	if nocopy {
		// the discipline waits for the release: the consumer takes the slice, uses it, releases
		stopMid := vChoose("stop-while-unreleased", 2) == 1
		stopped := false
		vOnBlock(released, func() {
			if stopped || len(d.output) == 0 {
				vDecline()
				return
			}
			vRole("consumer")
			s := <-d.Output()
			vTouchR(s) // no-copy: the consumer reads the slice it was lent ...
			if stopMid {
				// ... and keeps it for ever: another goroutine stops the discipline before any release
				kept = append(kept, s)
				stopped = true
				vRole("control")
				vBreakSignal(d.breaker)
				vRole("goroutine0")
				return
			}
			vPark(released, struct{}{})
			vRole("goroutine0")
		})
		vOnBlock(d.opts.Input, func() { vDecline() })
	}
	vRunSpawned(0)
	vRole("consumer")
	for s := range d.Output() {
		vTouchR(s)
		if !nocopy {
			vTouchW(s[:cap(s)]) // modifying includes appending into the spare capacity of the slice the consumer owns
		}
		kept = append(kept, s)
	}
	for _, k := range kept {
		vTouchR(k) // a slice that was never released stays the consumer's: it may read it at any time
	}
	if !nocopy {
		for _, k := range kept {
			vTouchW(k[:cap(k)])
		}
	}
	vCheckRaces()
	vReach("end")
}
