package join

import (
	"context"
	"time"
)

// C03 / C08 / C09 / C16 (v1 join): the real New + main. Normal runs (input closed,
// consumer reading) check integrity; stop runs inject Stop / context cancellation
// at an arbitrary blocking point into an otherwise silent environment.

type vJoinEnv struct {
	d        *Discipline[int]
	items    []int
	emitted  []int
	lens     []int
	times    []int64
	outs     [][]int
	awaiting bool
	t0       int64
	released chan struct{}
	cancel   context.CancelFunc
	stopped  bool
	frozen   []int // values of the unreleased slice at the moment of the stop
	frozenSlice []int // that slice itself
	ptr      int   // position in items up to which the delivered elements have been matched
	acc       []int64 // acceptance time of every element inside the discipline, oldest first
	mustFlush bool    // a tick was taken at least Timeout after acc[0]: a delivery must come next
}

func vJoinSetup(timed bool, closeInput bool, sink bool) *vJoinEnv {
	JS := vParam("JS", 2)
	M := vParam("M", 3)
	e := &vJoinEnv{}
	in := make(chan int, M+1)
	var tags []uint
	for i := 0; i < M; i++ {
		u := vNondetUint("x")
		tags = append(tags, u)
		x := int(u)
		e.items = append(e.items, x)
		in <- x
	}
	if M > 0 {
		vDistinct(tags...) // pairwise different elements, so positions are recoverable
	}
	if closeInput {
		close(in)
	}
	ctx, cancel := context.WithCancel(context.Background())
	e.cancel = cancel
	opts := Opts[int]{Ctx: ctx, Input: in, JoinSize: uint(JS)}
	nocopy := vChoose("nocopy", 2) == 1
	if nocopy {
		e.released = make(chan struct{})
		opts.Released = e.released
	}
	if timed {
		opts.Timeout = time.Duration(vNondetI64("timeout"))
		vAssume(opts.Timeout > 0)
		opts.TimeoutInaccuracy = []uint{25, 100}[vChoose("inacc", 2)] // 100: the ticker period equals the Timeout
	}
	e.t0 = vNow()
	d, err := New(opts)
	vAssume(err == nil)
	e.d = d
	if sink {
		if vChoose("lazy-consumer", 2) == 1 {
			// the consumer takes a slice only when the discipline is blocked on the (one-slot) output
			vOnBlock(d.output, func() {
				if len(d.output) == 0 {
					vDecline()
					return
				}
				<-d.output
			})
		} else {
			vSink(d.output)
		}
	}
	if timed {
		vOnRecv(in, func(v any, ok bool) {
			vAssert(!e.mustFlush, "C10: a tick taken at least Timeout after the oldest buffered element was accepted flushes the buffer (an arrival never postpones the deadline of what is already buffered)")
			if ok {
				vAdvance()
				e.acc = append(e.acc, vNow())
			}
		})
		vOnTick(func() {
			vAssert(!e.mustFlush, "C10: a tick taken at least Timeout after the oldest buffered element was accepted flushes the buffer (an arrival never postpones the deadline of what is already buffered)")
			if len(e.acc) > 0 && vNow()-e.acc[0] >= int64(opts.Timeout) {
				e.mustFlush = true
			}
		})
	}
	vOnSend(d.output, func(v any) {
		s := v.([]int)
		e.mustFlush = false
		if len(s) <= len(e.acc) {
			e.acc = e.acc[len(s):]
		} else {
			e.acc = nil
		}
		vAssert(len(s) > 0, "C03: no output slice is empty")
		vAssert(len(s) <= JS, "C03: a join slice never has more than JoinSize elements")
		// checked at every delivery (before the ownership rules, whose failure would end the path)
		for _, x := range s {
			found := false
			for e.ptr < len(e.items) {
				if e.items[e.ptr] == x {
					found = true
					e.ptr++
					break
				}
				e.ptr++
			}
			vAssert(found, "C03/C16: what is delivered continues an in-order, duplicate-free subsequence of what was written")
		}
		vAssert(!e.awaiting, "C08: no further output is produced before the previous no-copy slice was released")
		if nocopy {
			e.awaiting = true
		} else {
			vAssert(!vSameArray(s, d.join), "C08: in copy mode the delivered slice does not share memory with the accumulation buffer")
			for _, o := range e.outs {
				vAssert(!vSameArray(s, o), "C08: in copy mode the delivered slice shares no memory with any other output")
			}
		}
		vWatch(s)
		e.outs = append(e.outs, s)
		e.lens = append(e.lens, len(s))
		vAdvance() // real time passes between the discipline's own clock readings (e.g. while it was blocked on this send)
		e.times = append(e.times, vNow())
		for _, x := range s {
			e.emitted = append(e.emitted, x)
		}
		if !nocopy {
			vHavocSlice(s)
		}
	})
	vTickBudget(vParam("T", 2))
	vExpect("TICK-HORIZON", "ok")
	return e
}

func (e *vJoinEnv) releaseHook() {
	vOnBlock(e.released, func() {
		if e.stopped {
			vDecline()
			return
		}
		vAssert(e.awaiting, "C08: the discipline waits for a release only after a no-copy delivery")
		vAssert(vWatchHits() == 0, "C08: a no-copy slice is not modified between delivery and release")
		vUnwatch(e.outs[len(e.outs)-1])
		e.awaiting = false
		vPark(e.released, struct{}{})
	})
}

// delivered elements form an in-order, duplicate-free subsequence of the written ones
func (e *vJoinEnv) checkSubsequence() {
	ptr := 0
	for _, x := range e.emitted {
		found := false
		for ptr < len(e.items) {
			if e.items[ptr] == x {
				found = true
				ptr++
				break
			}
			ptr++
		}
		vAssert(found, "C03/C16: what was delivered is an in-order, duplicate-free subsequence of what was written")
	}
}

// gosym: mode=int
func VerifC03_v1join_normal() {
	timed := vChoose("timed", 2) == 1
	e := vJoinSetup(timed, true, true)
	JS := vParam("JS", 2)
	if e.released != nil {
		e.releaseHook()
	}
	vTermWatch(e.d.output)
	vRunSpawned(0)
	vRunLeftoverSpawned()
	e.checkSubsequence()
	vAssert(len(e.emitted) == len(e.items), "C03: the output carries exactly as many elements as were written")
	vAssert(vIsClosed(e.d.output), "C03: the output is closed after the input was closed and flushed")
	vAssert(vWatchHits() == 0, "C03/C08: the discipline never writes into a slice it has delivered (a consumer that keeps the slices until the output closes still reads exactly the input stream)")
	T := int64(e.d.opts.Timeout)
	for k := 0; k+1 < len(e.lens); k++ {
		if e.lens[k] < JS {
			vAssert(timed, "C09: without a timeout every slice except the last has exactly JoinSize elements")
			prev := e.t0
			if k > 0 {
				prev = e.times[k-1]
			}
			vAssert(e.times[k]-prev >= T, "C09: a short slice (not the last) is delivered no earlier than Timeout after the previous delivery")
		}
	}
	vAssert(vTickersRunning() == 0, "C19: no ticker of the discipline is left running when main returns")
	vReach("end")
}

// Stop / cancel at an arbitrary blocking point; afterwards nobody reads, writes or releases.
// gosym: mode=int
func VerifC16_v1join_stop() {
	timed := vChoose("timed", 2) == 1
	e := vJoinSetup(timed, vChoose("closeInput", 2) == 1, false)
	d := e.d
	byCtx := vChoose("byCtx", 2) == 1
	signal := func() {
		e.stopped = true
		if e.awaiting && len(e.outs) > 0 {
			e.frozenSlice = e.outs[len(e.outs)-1]
			for _, x := range e.frozenSlice {
				e.frozen = append(e.frozen, x)
			}
		}
		if byCtx {
			e.cancel()
		} else {
			vBreakSignal(d.breaker)
		}
	}
	if vChoose("stopAtStart", 2) == 1 {
		signal()
	}
	env := func() {
		if e.stopped {
			vDecline()
			return
		}
		acts := 2
		if e.released != nil {
			acts = 3
		}
		switch vChoose("env", acts) {
		case 0:
			signal()
		case 1: // the consumer takes what is in the output buffer
			if len(d.output) > 0 {
				<-d.output
			} else {
				signal()
			}
		case 2:
			if e.awaiting {
				vAssert(vWatchHits() == 0, "C08: a no-copy slice is not modified between delivery and release")
				vUnwatch(e.outs[len(e.outs)-1])
				e.awaiting = false
				vPark(e.released, struct{}{})
			} else {
				signal()
			}
		}
	}
	vLassoBound(40)
	vExpect("BLOCKED", "fail:C16: after Stop/cancel the join goroutine blocks for ever (output full / release never sent / producers idle)")
	vExpect("LASSO", "fail:C16: after Stop/cancel the join goroutine spins for ever")
	vOnBlock(d.output, env)
	vOnBlock(d.opts.Input, env)
	if e.released != nil {
		vOnBlock(e.released, env)
	}
	vTermWatch(d.output)
	vRunSpawned(0)
	vRunLeftoverSpawned()
	vReach("returned")
	vAssert(vIsClosed(d.output), "C16: when main completes after Stop/cancel the output is closed")
	vAssert(vTickersRunning() == 0, "C19: no ticker of the discipline is left running when main returns")
	e.checkSubsequence()
	if e.awaiting {
		// stopped before the release signal: the delivered slice must never be touched again
		vAssert(vWatchHits() == 0, "C08: after Stop/cancel before the release signal the delivered slice is never touched again")
		for i := range e.frozen {
			vAssert(i < len(e.frozenSlice) && e.frozenSlice[i] == e.frozen[i], "C08: the unreleased slice keeps its contents after Stop/cancel")
		}
	}
}
