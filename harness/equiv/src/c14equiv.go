package equiv

import (
	v1 "github.com/akramarenkov/cqos/priority"
	v2 "github.com/akramarenkov/cqos/v2/priority/divider"
)

// C14: the v1 and v2 dividers produce identical distributions on identical
// arguments. Float computations are uninterpreted (shared symbols on both sides),
// so equality holds for any value they take as long as both versions compute the
// same expressions in the same order.

func eqKeys(n int) []uint {
	ps := make([]uint, 0, n)
	for i := 0; i < n; i++ {
		ps = append(ps, vNondetUint("p"))
	}
	vDistinct(ps...)
	for i := 1; i < n; i++ {
		vAssume(ps[i-1] > ps[i])
	}
	return ps
}

func eqPrefill(ps []uint) (a, b map[uint]uint) {
	a, b = map[uint]uint{}, map[uint]uint{}
	mode := vChoose("presence", 2)
	for _, p := range ps {
		if mode == 1 {
			x := vNondetUint("pre")
			a[p], b[p] = x, x
		}
	}
	return
}

func eqSame(ps []uint, a, b map[uint]uint, what string) {
	for _, p := range ps {
		x, okx := a[p]
		y, oky := b[p]
		vAssert(okx == oky, what+": same entries present")
		vAssert(x == y, what+": same values")
	}
	vAssert(len(a) == len(b), what+": same number of entries")
}

// gosym: mode=int fp=uf
func VerifC14_equiv_fair() {
	ps := eqKeys(vParam("n", 3))
	D := vNondetUint("D")
	a, b := eqPrefill(ps)
	r := v1.FairDivider(ps, D, a)
	v2.Fair(ps, D, b)
	eqSame(ps, r, b, "Fair v1 vs v2")
	vReach("end")
}

// gosym: mode=bv fp=uf
func VerifC14_equiv_rate() {
	ps := eqKeys(vParam("n", 3))
	D := vNondetUint("D")
	a, b := eqPrefill(ps)
	r := v1.RateDivider(ps, D, a)
	v2.Rate(ps, D, b)
	eqSame(ps, r, b, "Rate v1 vs v2")
	vReach("end")
}

// nil distribution: v1 allocates, v2 needs a map; the contents must agree
// gosym: mode=int fp=uf
func VerifC14_equiv_nil_fair() {
	ps := eqKeys(vParam("n", 3))
	D := vNondetUint("D")
	b1 := map[uint]uint{}
	r1 := v1.FairDivider(ps, D, nil)
	v2.Fair(ps, D, b1)
	eqSame(ps, r1, b1, "Fair(nil) v1 vs v2(empty)")
	vReach("end")
}

// gosym: mode=bv fp=uf
func VerifC14_equiv_nil_rate() {
	ps := eqKeys(vParam("n", 3))
	D := vNondetUint("D")
	b2 := map[uint]uint{}
	r2 := v1.RateDivider(ps, D, nil)
	v2.Rate(ps, D, b2)
	eqSame(ps, r2, b2, "Rate(nil) v1 vs v2(empty)")
	vReach("end")
}
