package equiv
