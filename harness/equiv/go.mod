module github.com/akramarenkov/verifequiv

go 1.22.4

require (
	github.com/akramarenkov/cqos v0.0.0
	github.com/akramarenkov/cqos/v2 v2.0.0
)

require (
	github.com/akramarenkov/breaker v0.1.0 // indirect
	github.com/akramarenkov/safe v0.2.3 // indirect
	golang.org/x/exp v0.0.0-20240613232115-7f521ea00fb8 // indirect
)

replace github.com/akramarenkov/cqos => /repo

replace github.com/akramarenkov/cqos/v2 => /repo/v2
