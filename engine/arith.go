package main

import (
	"fmt"
	"go/constant"
	"go/token"
	"go/types"
	"math/big"
)

// Integer representation: BV mode = (_ BitVec w) with Go's wrap-around;
// Int mode = Int terms kept inside the type's range by explicit wrapping.

func (e *Engine) intConst(w int, v int64) *Term {
	if e.intMode {
		return e.tb.Int(v)
	}
	return e.tb.BVS(w, v)
}

func (e *Engine) intConstBig(w int, signed bool, v *big.Int) *Term {
	if e.intMode {
		return e.wrap(e.tb.IntBig(v), w, signed)
	}
	return e.tb.BVBig(w, v)
}

func (e *Engine) floatConst(f float64) *Term {
	if e.fpUF {
		// concrete floats stay concrete FP terms; they are lifted on demand
		return e.tb.FP(f)
	}
	return e.tb.FP(f)
}

func pow2(w int) *big.Int { return new(big.Int).Lsh(bigOne, uint(w)) }

// wrap brings an Int term into the range of the (w, signed) type.
func (e *Engine) wrap(t *Term, w int, signed bool) *Term {
	b := e.tb
	if t.IsConst() {
		m := new(big.Int).Mod(t.val, pow2(w))
		if signed && m.Bit(w-1) == 1 {
			m.Sub(m, pow2(w))
		}
		return b.IntBig(m)
	}
	if !signed {
		return b.IBin("mod", t, b.IntBig(pow2(w)))
	}
	half := b.IntBig(pow2(w - 1))
	return b.IBin("-", b.IBin("mod", b.IBin("+", t, half), b.IntBig(pow2(w))), half)
}

// rangeCond returns the constraint lo <= t <= hi of the type.
func (e *Engine) rangeCond(t *Term, w int, signed bool) *Term {
	b := e.tb
	if signed {
		lo := new(big.Int).Neg(pow2(w - 1))
		hi := new(big.Int).Sub(pow2(w-1), bigOne)
		return b.And(b.ICmp("<=", b.IntBig(lo), t), b.ICmp("<=", t, b.IntBig(hi)))
	}
	hi := new(big.Int).Sub(pow2(w), bigOne)
	return b.And(b.ICmp("<=", b.Int(0), t), b.ICmp("<=", t, b.IntBig(hi)))
}

// truncating division / remainder on Int terms (Go semantics)
func (e *Engine) intQuo(x, y *Term) *Term {
	b := e.tb
	if x.IsConst() && y.IsConst() && y.val.Sign() != 0 {
		return b.IntBig(new(big.Int).Quo(x.val, y.val))
	}
	// SMT div is euclidean: for x>=0 it equals truncation when y>0; general case via abs
	zero := b.Int(0)
	ax := b.Ite(b.ICmp("<", x, zero), b.IBin("-", zero, x), x)
	ay := b.Ite(b.ICmp("<", y, zero), b.IBin("-", zero, y), y)
	q := b.IBin("div", ax, ay)
	neg := b.Not(b.Eq(b.ICmp("<", x, zero), b.ICmp("<", y, zero)))
	return b.Ite(neg, b.IBin("-", zero, q), q)
}

func (e *Engine) intRem(x, y *Term) *Term {
	b := e.tb
	return b.IBin("-", x, b.IBin("*", e.intQuo(x, y), y))
}

func (e *Engine) binopInt(op token.Token, x, y *Term, w int, signed bool) Value {
	b := e.tb
	if e.intMode {
		switch op {
		case token.ADD:
			return e.wrap(b.IBin("+", x, y), w, signed)
		case token.SUB:
			return e.wrap(b.IBin("-", x, y), w, signed)
		case token.MUL:
			return e.wrap(b.IBin("*", x, y), w, signed)
		case token.QUO:
			e.checkDivZero(b.Eq(y, b.Int(0)))
			if !signed {
				return b.IBin("div", x, y)
			}
			return e.wrap(e.intQuo(x, y), w, signed)
		case token.REM:
			e.checkDivZero(b.Eq(y, b.Int(0)))
			if !signed {
				return b.IBin("mod", x, y)
			}
			return e.intRem(x, y)
		case token.EQL:
			return b.Eq(x, y)
		case token.NEQ:
			return b.Not(b.Eq(x, y))
		case token.LSS:
			return b.ICmp("<", x, y)
		case token.LEQ:
			return b.ICmp("<=", x, y)
		case token.GTR:
			return b.ICmp("<", y, x)
		case token.GEQ:
			return b.ICmp("<=", y, x)
		case token.SHL:
			if y.IsConst() {
				return e.wrap(b.IBin("*", x, b.IntBig(pow2(int(y.val.Int64())))), w, signed)
			}
		case token.SHR:
			if y.IsConst() && !signed {
				return b.IBin("div", x, b.IntBig(pow2(int(y.val.Int64()))))
			}
		}
		if x.IsConst() && y.IsConst() {
			r := new(big.Int)
			ux := new(big.Int).Mod(x.val, pow2(w))
			uy := new(big.Int).Mod(y.val, pow2(w))
			switch op {
			case token.AND:
				return e.wrap(b.IntBig(r.And(ux, uy)), w, signed)
			case token.OR:
				return e.wrap(b.IntBig(r.Or(ux, uy)), w, signed)
			case token.XOR:
				return e.wrap(b.IntBig(r.Xor(ux, uy)), w, signed)
			case token.AND_NOT:
				return e.wrap(b.IntBig(r.AndNot(ux, uy)), w, signed)
			case token.SHR:
				return e.wrap(b.IntBig(r.Rsh(x.val, uint(y.val.Uint64()))), w, signed)
			}
		}
		e.unmodelled(fmt.Sprintf("int-mode binop %v", op))
	}
	switch op {
	case token.ADD:
		return b.BVBin("bvadd", x, y)
	case token.SUB:
		return b.BVBin("bvsub", x, y)
	case token.MUL:
		return b.BVBin("bvmul", x, y)
	case token.QUO:
		e.checkDivZero(b.Eq(y, b.BV(w, 0)))
		if signed {
			return b.BVBin("bvsdiv", x, y)
		}
		return b.BVBin("bvudiv", x, y)
	case token.REM:
		e.checkDivZero(b.Eq(y, b.BV(w, 0)))
		if signed {
			return b.BVBin("bvsrem", x, y)
		}
		return b.BVBin("bvurem", x, y)
	case token.AND:
		return b.BVBin("bvand", x, y)
	case token.OR:
		return b.BVBin("bvor", x, y)
	case token.XOR:
		return b.BVBin("bvxor", x, y)
	case token.AND_NOT:
		return b.BVBin("bvand", x, b.BVNot(y))
	case token.SHL:
		return b.BVBin("bvshl", x, y)
	case token.SHR:
		if signed {
			return b.BVBin("bvashr", x, y)
		}
		return b.BVBin("bvlshr", x, y)
	case token.EQL:
		return b.Eq(x, y)
	case token.NEQ:
		return b.Not(b.Eq(x, y))
	case token.LSS:
		if signed {
			return b.BVCmp("bvslt", x, y)
		}
		return b.BVCmp("bvult", x, y)
	case token.LEQ:
		if signed {
			return b.BVCmp("bvsle", x, y)
		}
		return b.BVCmp("bvule", x, y)
	case token.GTR:
		if signed {
			return b.BVCmp("bvslt", y, x)
		}
		return b.BVCmp("bvult", y, x)
	case token.GEQ:
		if signed {
			return b.BVCmp("bvsle", y, x)
		}
		return b.BVCmp("bvule", y, x)
	}
	e.unmodelled(fmt.Sprintf("binop %v on ints", op))
	return nil
}

func (e *Engine) checkDivZero(isZero *Term) {
	if isZero.IsFalse() {
		return
	}
	if e.decide(isZero, "divzero") {
		e.progPanic("integer divide by zero")
	}
}

// ---- floats. UF mode: all arithmetic on non-constant floats is uninterpreted.

// UF mode: float VALUES keep the FP sort (so comparisons stay interpreted), but
// arithmetic, rounding and int<->float conversions on non-constant operands are
// uninterpreted functions over that sort.
func (e *Engine) liftUF(t *Term) *Term { return t }

func (e *Engine) fpBin(op string, x, y *Term) *Term {
	if x.IsConst() && y.IsConst() {
		return e.tb.FPBin(op, x, y)
	}
	if e.fpUF {
		return e.tb.App("uf_"+op[3:], SortFP, x, y)
	}
	return e.tb.FPBin(op, x, y)
}

func (e *Engine) fpCmp(op string, x, y *Term) *Term {
	return e.tb.FPCmp(op, x, y)
}

func (e *Engine) fpUn(op string, x *Term) *Term {
	if x.IsConst() {
		return e.tb.FPUn(op, x)
	}
	if e.fpUF && op == "fp.roundRNA" {
		return e.tb.App("uf_round", SortFP, x)
	}
	return e.tb.FPUn(op, x)
}

func (e *Engine) binopFloat(op token.Token, x, y *Term) Value {
	b := e.tb
	switch op {
	case token.ADD:
		return e.fpBin("fp.add", x, y)
	case token.SUB:
		return e.fpBin("fp.sub", x, y)
	case token.MUL:
		return e.fpBin("fp.mul", x, y)
	case token.QUO:
		return e.fpBin("fp.div", x, y)
	case token.LSS:
		return e.fpCmp("fp.lt", x, y)
	case token.LEQ:
		return e.fpCmp("fp.leq", x, y)
	case token.GTR:
		return e.fpCmp("fp.lt", y, x)
	case token.GEQ:
		return e.fpCmp("fp.leq", y, x)
	case token.EQL:
		return e.fpCmp("fp.eq", x, y)
	case token.NEQ:
		return b.Not(e.fpCmp("fp.eq", x, y))
	}
	e.unmodelled(fmt.Sprintf("binop %v on floats", op))
	return nil
}

// intToBV / bvToInt bridge for conversions in Int mode
func (e *Engine) asBV(t *Term, w int) *Term {
	if t.sort.K == KBV {
		return t
	}
	if t.IsConst() {
		return e.tb.BVBig(w, t.val)
	}
	return e.tb.mkp("int2bv", SortBV(w), w, 0, t)
}

func (e *Engine) convert(v Value, from, to types.Type) Value {
	b := e.tb
	fw, fs, fInt := isInt(from)
	tw, ts, tInt := isInt(to)
	switch {
	case fInt && tInt:
		x := v.(*Term)
		if e.intMode {
			return e.wrap(x, tw, ts)
		}
		switch {
		case tw == fw:
			return x
		case tw < fw:
			return b.Extract(tw-1, 0, x)
		case fs:
			return b.SignExt(tw-fw, x)
		default:
			return b.ZeroExt(tw-fw, x)
		}
	case fInt && isFloat(to):
		x := v.(*Term)
		if x.IsConst() {
			if e.intMode {
				f, _ := new(big.Float).SetInt(x.val).Float64()
				return b.FP(f)
			}
			return b.FPFromBV(x, fs)
		}
		if e.intMode && !e.fpUF {
			e.unmodelled("int->float conversion in Int mode")
		}
		if e.fpUF {
			nm := "uf_u2f"
			if fs {
				nm = "uf_s2f"
			}
			return b.App(nm, SortFP, x)
		}
		return b.FPFromBV(x, fs)
	case isFloat(from) && tInt:
		x := v.(*Term)
		if e.intMode {
			if x.IsConst() {
				bf := new(big.Float).SetFloat64(x.fval)
				i, _ := bf.Int(nil)
				return e.wrap(b.IntBig(i), tw, ts)
			}
			if e.fpUF {
				nm := "uf_f2u"
				if ts {
					nm = "uf_f2s"
				}
				t := b.App(nm, SortInt, e.liftUF(x))
				e.addPC(e.rangeCond(t, tw, ts))
				return t
			}
			e.unmodelled("float->int conversion in Int mode")
		}
		if e.fpUF && !x.IsConst() {
			nm := "uf_f2u"
			if ts {
				nm = "uf_f2s"
			}
			return b.App(nm, SortBV(tw), e.liftUF(x))
		}
		return b.FPToBV(x, tw, ts)
	case isFloat(from) && isFloat(to):
		return v
	case isString(from) && isString(to):
		return v
	}
	// pointer <-> unsafe.Pointer etc.
	if _, ok := from.Underlying().(*types.Pointer); ok {
		return v
	}
	e.unmodelled(fmt.Sprintf("convert %v -> %v", from, to))
	return nil
}

func (e *Engine) constValue(c constant.Value, t types.Type) Value {
	b := e.tb
	if c == nil {
		return e.zero(t)
	}
	if w, s, ok := isInt(t); ok {
		i, ok2 := constant.Int64Val(constant.ToInt(c))
		if ok2 {
			return e.intConst(w, i)
		}
		u, _ := constant.Uint64Val(constant.ToInt(c))
		_ = s
		return e.intConstBig(w, s, new(big.Int).SetUint64(u))
	}
	switch {
	case isBool(t):
		return b.Bool(constant.BoolVal(c))
	case isFloat(t):
		f, _ := constant.Float64Val(c)
		return e.floatConst(f)
	case isString(t):
		return constant.StringVal(c)
	}
	e.unmodelled(fmt.Sprintf("constant of type %v", t))
	return nil
}

func floatBits(f float64) uint64 {
	return mathFloat64bits(f)
}
