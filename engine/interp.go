package main

import (
	"fmt"
	"go/token"
	"go/types"
	"math/big"
	"strings"

	"golang.org/x/tools/go/ssa"
)

func newBig(s string) (*big.Int, bool) { return new(big.Int).SetString(s, 10) }

type deferred struct {
	fn   Value
	args []Value
	call *ssa.CallCommon
}

type Frame struct {
	fn     *ssa.Function
	regs   map[ssa.Value]Value
	defers []deferred
	env    []Value
	result Value
	loops  map[*ssa.If]int
}

func (e *Engine) get(fr *Frame, v ssa.Value) Value {
	switch x := v.(type) {
	case *ssa.Const:
		return e.constValue(x.Value, x.Type())
	case *ssa.Function:
		return FuncV{Fn: x}
	case *ssa.Global:
		return PtrV{e.globalLoc(x)}
	case *ssa.FreeVar:
		for i, fv := range fr.fn.FreeVars {
			if fv == x {
				return fr.env[i]
			}
		}
		panic("freevar not found")
	case *ssa.Builtin:
		return FuncV{Builtin: "builtin:" + x.Name()}
	}
	r, ok := fr.regs[v]
	if !ok {
		panic(fmt.Sprintf("no value for %s (%T) in %s", v.Name(), v, fr.fn))
	}
	return r
}

func (e *Engine) globalLoc(g *ssa.Global) *Loc {
	if l, ok := e.globals[g]; ok {
		return l
	}
	// make sure the package initialiser ran (errors.New variables etc.)
	e.ensureInit(g.Pkg)
	if l, ok := e.globals[g]; ok {
		return l
	}
	l := e.newLoc(g.Type().(*types.Pointer).Elem())
	l.name = g.String()
	e.globals[g] = l
	return l
}

func (e *Engine) executesRealBody(pkg *ssa.Package) bool {
	if pkg == nil {
		return true
	}
	p := pkg.Pkg.Path()
	return strings.HasPrefix(p, "github.com/akramarenkov/") || p == "errors" || p == "slices" ||
		strings.HasPrefix(p, "golang.org/x/exp/constraints")
}

func (e *Engine) ensureInit(pkg *ssa.Package) {
	if pkg == nil || e.initRun[pkg] {
		return
	}
	e.initRun[pkg] = true
	if !strings.HasPrefix(pkg.Pkg.Path(), "github.com/akramarenkov/") {
		return
	}
	// allocate globals first
	for _, m := range pkg.Members {
		if g, ok := m.(*ssa.Global); ok {
			if _, ok := e.globals[g]; !ok {
				l := e.newLoc(g.Type().(*types.Pointer).Elem())
				l.name = g.String()
				e.globals[g] = l
			}
		}
	}
	if init := pkg.Func("init"); init != nil && init.Blocks != nil {
		e.callRaw(init, nil, nil, true)
	}
}

// call executes fn with args; returns a single Value or TupleV.
func (e *Engine) call(fn *ssa.Function, args []Value, env []Value) Value {
	return e.callRaw(fn, args, env, false)
}

func (e *Engine) callRaw(fn *ssa.Function, args []Value, env []Value, isInit bool) Value {
	if v, handled := e.intercept(fn, args); handled {
		return v
	}
	if len(e.replaced) > 0 {
		nm := fn.Name()
		if fn.Origin() != nil {
			nm = fn.Origin().Name()
		}
		if r, ok := e.replaced[nm]; ok && !e.inReplaced[nm] {
			e.inReplaced[nm] = true
			e.h.Stubs["contract:"+nm]++
			defer func() { e.inReplaced[nm] = false }()
			return e.invoke(nil, r, args)
		}
	}
	if fn.Synthetic == "package initializer" && (fn.Pkg == nil || !strings.HasPrefix(fn.Pkg.Pkg.Path(), "github.com/akramarenkov/")) {
		return nil
	}
	if fn.Synthetic == "package initializer" && !isInit {
		e.ensureInit(fn.Pkg)
		return nil
	}
	if fn.Blocks == nil {
		e.unmodelled("external function " + fn.String())
	}
	if !isInit && !e.executesRealBody(fn.Package()) && fn.Package() != nil {
		e.unmodelled("unmodelled callee " + fn.String())
	}
	if isInit {
		// package initialisers of dependencies: only run those of the modules under test
	}
	e.path.callDepth++
	if e.path.callDepth > 200 {
		e.abort("DEPTH", fn.String())
	}
	defer func() { e.path.callDepth-- }()
	e.h.Funcs[fn.String()]++
	e.hbPush(fn)
	defer e.hbPop()
	fr := &Frame{fn: fn, regs: map[ssa.Value]Value{}, env: env}
	for i, p := range fn.Params {
		fr.regs[p] = args[i]
	}
	var prev *ssa.BasicBlock
	blk := fn.Blocks[0]
	for {
		// phis first (parallel assignment)
		nphi := 0
		var phiVals []Value
		for _, ins := range blk.Instrs {
			phi, ok := ins.(*ssa.Phi)
			if !ok {
				break
			}
			nphi++
			for i, p := range blk.Preds {
				if p == prev {
					phiVals = append(phiVals, e.get(fr, phi.Edges[i]))
					break
				}
			}
		}
		for i := 0; i < nphi; i++ {
			fr.regs[blk.Instrs[i].(*ssa.Phi)] = phiVals[i]
		}
		var next *ssa.BasicBlock
		for _, ins := range blk.Instrs[nphi:] {
			e.path.instrs++
			if e.path.instrs > e.maxInstr {
				e.abort("BUDGET", "instruction budget exhausted in "+fn.String())
			}
			switch x := ins.(type) {
			case *ssa.If:
				c := e.get(fr, x.Cond).(*Term)
				if !c.IsConst() {
					if fr.loops == nil {
						fr.loops = map[*ssa.If]int{}
					}
					fr.loops[x]++
					if fr.loops[x] > e.loopBound {
						e.abort("UNWIND", fmt.Sprintf("%s: symbolic branch taken more than %d times", posOf(e.prog, x.Pos()), e.loopBound))
					}
				}
				if e.decide(c, "if") {
					next = blk.Succs[0]
				} else {
					next = blk.Succs[1]
				}
			case *ssa.Jump:
				next = blk.Succs[0]
			case *ssa.Return:
				switch len(x.Results) {
				case 0:
					return nil
				case 1:
					return e.get(fr, x.Results[0])
				default:
					tv := make(TupleV, len(x.Results))
					for i, r := range x.Results {
						tv[i] = e.get(fr, r)
					}
					return tv
				}
			case *ssa.Panic:
				v := e.get(fr, x.X)
				e.progPanic("panic: " + e.describe(v))
			case *ssa.RunDefers:
				for len(fr.defers) > 0 {
					d := fr.defers[len(fr.defers)-1]
					fr.defers = fr.defers[:len(fr.defers)-1]
					e.invoke(d.call, d.fn, d.args)
				}
			default:
				e.exec(fr, ins)
			}
			if next != nil {
				break
			}
		}
		if next == nil {
			panic("block fell through: " + fn.String())
		}
		prev, blk = blk, next
	}
}

func (e *Engine) exec(fr *Frame, ins ssa.Instruction) {
	switch x := ins.(type) {
	case *ssa.Alloc:
		fr.regs[x] = PtrV{e.newLoc(x.Type().(*types.Pointer).Elem())}
	case *ssa.BinOp:
		fr.regs[x] = e.binop(x.Op, e.get(fr, x.X), e.get(fr, x.Y), x.X.Type(), x.Y.Type())
	case *ssa.UnOp:
		fr.regs[x] = e.unop(fr, x)
	case *ssa.Call:
		fn, args := e.prepareCall(fr, &x.Call)
		fr.regs[x] = e.invoke(&x.Call, fn, args)
	case *ssa.Defer:
		fn, args := e.prepareCall(fr, &x.Call)
		fr.defers = append(fr.defers, deferred{fn: fn, args: args, call: &x.Call})
	case *ssa.Go:
		fn, args := e.prepareCall(fr, &x.Call)
		name := "?"
		if f, ok := fn.(FuncV); ok && f.Fn != nil {
			name = f.Fn.String()
		}
		e.h.GoSites[posOf(e.prog, x.Pos())+" "+name]++
		e.tracef("go %s", name)
		e.spawned = append(e.spawned, spawnRec{fn: fn, args: args, call: &x.Call, hbEv: e.hbAdd('g', nil, posOf(e.prog, x.Pos()), "go")})
	case *ssa.ChangeType:
		fr.regs[x] = e.get(fr, x.X)
	case *ssa.ChangeInterface:
		fr.regs[x] = e.get(fr, x.X)
	case *ssa.Convert:
		fr.regs[x] = e.convert(e.get(fr, x.X), x.X.Type(), x.Type())
	case *ssa.MakeInterface:
		fr.regs[x] = IfaceV{T: x.X.Type(), V: e.get(fr, x.X)}
	case *ssa.MakeClosure:
		var env []Value
		for _, b := range x.Bindings {
			env = append(env, e.get(fr, b))
		}
		fr.regs[x] = FuncV{Fn: x.Fn.(*ssa.Function), Env: env}
	case *ssa.MakeMap:
		mt := x.Type().Underlying().(*types.Map)
		e.nextObj++
		fr.regs[x] = MapV{&MapObj{id: e.nextObj, keyT: mt.Key(), valT: mt.Elem()}}
	case *ssa.MakeChan:
		szT := e.get(fr, x.Size).(*Term)
		if szT.IsConst() {
			sz := e.concreteInt(szT, "makechan size")
			fr.regs[x] = ChanV{e.newChan(x.Type().Underlying().(*types.Chan).Elem(), sz)}
		} else {
			// symbolic capacity: cap() yields the term; blocking on a full buffer is not modelled for this channel
			c := e.newChan(x.Type().Underlying().(*types.Chan).Elem(), 1<<20)
			c.capTerm = szT
			e.stub("makechan(symbolic capacity)")
			fr.regs[x] = ChanV{c}
		}
	case *ssa.MakeSlice:
		ln := e.concreteInt(e.get(fr, x.Len).(*Term), "makeslice len")
		cp := e.concreteInt(e.get(fr, x.Cap).(*Term), "makeslice cap")
		if ln < 0 || cp < ln {
			e.progPanic("makeslice: len/cap out of range")
		}
		if cp > 1<<16 {
			e.abort("BUDGET", "makeslice cap too large for the engine")
		}
		et := x.Type().Underlying().(*types.Slice).Elem()
		fr.regs[x] = SliceV{B: e.newBacking(et, cp), Off: 0, Len: ln, Cap: cp}
	case *ssa.FieldAddr:
		p := e.get(fr, x.X).(PtrV)
		if p.L == nil {
			e.progPanic("nil pointer dereference (field " + fmt.Sprint(x.Field) + ") at " + posOf(e.prog, x.Pos()))
		}
		fr.regs[x] = PtrV{p.L.kids[x.Field]}
	case *ssa.Field:
		s := e.get(fr, x.X).(*StructV)
		fr.regs[x] = s.F[x.Field]
	case *ssa.IndexAddr:
		base := e.get(fr, x.X)
		idx := e.get(fr, x.Index).(*Term)
		switch b := base.(type) {
		case SliceV:
			i := e.concreteIndex(idx, b.Len, x.Pos())
			fr.regs[x] = PtrV{b.B.cells[b.Off+i]}
		case PtrV: // *array
			if b.L == nil {
				e.progPanic("nil array pointer")
			}
			i := e.concreteIndex(idx, len(b.L.kids), x.Pos())
			fr.regs[x] = PtrV{b.L.kids[i]}
		default:
			panic("IndexAddr on " + fmt.Sprintf("%T", base))
		}
	case *ssa.Index:
		base := e.get(fr, x.X)
		idx := e.get(fr, x.Index).(*Term)
		switch b := base.(type) {
		case *ArrayV:
			i := e.concreteIndex(idx, len(b.E), x.Pos())
			fr.regs[x] = b.E[i]
		case string:
			i := e.concreteIndex(idx, len(b), x.Pos())
			fr.regs[x] = e.intConst(8, int64(b[i]))
		default:
			panic("Index on " + fmt.Sprintf("%T", base))
		}
	case *ssa.Slice:
		fr.regs[x] = e.sliceOp(fr, x)
	case *ssa.Lookup:
		m := e.get(fr, x.X)
		switch mv := m.(type) {
		case MapV:
			if e.hb.on {
				e.hbMap('R', mv.M, posOf(e.prog, x.Pos()))
			}
			v, ok := e.mapLookup(mv, e.get(fr, x.Index))
			if !ok {
				v = e.zero(x.X.Type().Underlying().(*types.Map).Elem())
			}
			if x.CommaOk {
				fr.regs[x] = TupleV{v, e.tb.Bool(ok)}
			} else {
				fr.regs[x] = v
			}
		default:
			e.unmodelled("Lookup on non-map")
		}
	case *ssa.MapUpdate:
		m := e.get(fr, x.Map).(MapV)
		if m.M == nil {
			e.progPanic("assignment to entry in nil map at " + posOf(e.prog, x.Pos()))
		}
		if e.hb.on {
			e.hbMap('W', m.M, posOf(e.prog, x.Pos()))
		}
		e.mapUpdate(m, e.get(fr, x.Key), e.get(fr, x.Value))
	case *ssa.Range:
		switch mv := e.get(fr, x.X).(type) {
		case MapV:
			if e.hb.on {
				e.hbMap('R', mv.M, posOf(e.prog, x.Pos()))
			}
			it := &mapIter{}
			if mv.M != nil {
				it.entries = append(it.entries, mv.M.entries...)
				it.m = mv.M
			}
			fr.regs[x] = it
		default:
			e.unmodelled("range over string")
		}
	case *ssa.Next:
		it := e.get(fr, x.Iter).(*mapIter)
		mt := x.Iter.(*ssa.Range).X.Type().Underlying().(*types.Map)
		// skip entries deleted during iteration
		for it.i < len(it.entries) && !it.m.has(it.entries[it.i]) {
			it.i++
		}
		if it.i >= len(it.entries) {
			fr.regs[x] = TupleV{e.tb.Bool(false), e.zero(mt.Key()), e.zero(mt.Elem())}
		} else {
			en := it.entries[it.i]
			it.i++
			fr.regs[x] = TupleV{e.tb.Bool(true), en.K, en.V}
		}
	case *ssa.Extract:
		fr.regs[x] = e.get(fr, x.Tuple).(TupleV)[x.Index]
	case *ssa.Store:
		if e.hb.on {
			e.hbMem('W', e.get(fr, x.Addr).(PtrV).L, posOf(e.prog, x.Pos()))
		}
		e.store(e.get(fr, x.Addr).(PtrV).L, e.get(fr, x.Val))
	case *ssa.Send:
		ch := e.get(fr, x.Chan).(ChanV)
		e.chanSend(ch.C, e.get(fr, x.X), posOf(e.prog, x.Pos()))
	case *ssa.Select:
		fr.regs[x] = e.selectOp(fr, x)
	case *ssa.TypeAssert:
		fr.regs[x] = e.typeAssert(fr, x)
	case *ssa.DebugRef:
	default:
		e.unmodelled(fmt.Sprintf("instruction %T (%s)", ins, ins))
	}
}

type spawnRec struct {
	fn   Value
	args []Value
	call *ssa.CallCommon
	hbEv int
}

type mapIter struct {
	m       *MapObj
	entries []*MapEntry
	i       int
}

func (m *MapObj) has(en *MapEntry) bool {
	for _, x := range m.entries {
		if x == en {
			return true
		}
	}
	return false
}

func (e *Engine) concreteInt(t *Term, what string) int {
	if t.IsConst() {
		if t.sort.K == KBV {
			return int(toSigned(t.val, t.sort.W).Int64())
		}
		return int(t.val.Int64())
	}
	e.unmodelled("symbolic " + what)
	return 0
}

// concreteIndex resolves an index; symbolic indices are case-split.
func (e *Engine) concreteIndex(idx *Term, n int, pos token.Pos) int {
	if idx.IsConst() {
		i := e.concreteInt(idx, "index")
		if i < 0 || i >= n {
			e.progPanic(fmt.Sprintf("index out of range [%d] with length %d at %s", i, n, posOf(e.prog, pos)))
		}
		return i
	}
	for i := 0; i < n; i++ {
		var c *Term
		if e.intMode {
			c = e.tb.Eq(idx, e.tb.Int(int64(i)))
		} else {
			c = e.tb.Eq(idx, e.tb.BV(idx.sort.W, uint64(i)))
		}
		if e.decide(c, "index") {
			return i
		}
	}
	e.progPanic(fmt.Sprintf("index out of range (symbolic) with length %d at %s", n, posOf(e.prog, pos)))
	return 0
}

func (e *Engine) sliceOp(fr *Frame, x *ssa.Slice) Value {
	base := e.get(fr, x.X)
	geti := func(v ssa.Value, def int) int {
		if v == nil {
			return def
		}
		return e.concreteInt(e.get(fr, v).(*Term), "slice bound")
	}
	switch b := base.(type) {
	case SliceV:
		lo := geti(x.Low, 0)
		hi := geti(x.High, b.Len)
		mx := geti(x.Max, b.Cap)
		if lo < 0 || hi < lo || mx < hi || mx > b.Cap {
			e.progPanic(fmt.Sprintf("slice bounds out of range [%d:%d:%d] cap %d at %s", lo, hi, mx, b.Cap, posOf(e.prog, x.Pos())))
		}
		if b.B == nil {
			return SliceV{}
		}
		return SliceV{B: b.B, Off: b.Off + lo, Len: hi - lo, Cap: mx - lo}
	case PtrV: // *array
		n := len(b.L.kids)
		lo := geti(x.Low, 0)
		hi := geti(x.High, n)
		mx := geti(x.Max, n)
		if lo < 0 || hi < lo || mx < hi || mx > n {
			e.progPanic("slice bounds out of range")
		}
		e.nextObj++
		bk := &Backing{id: e.nextObj, cells: b.L.kids, elemT: b.L.typ.Underlying().(*types.Array).Elem()}
		return SliceV{B: bk, Off: lo, Len: hi - lo, Cap: mx - lo}
	case string:
		lo := geti(x.Low, 0)
		hi := geti(x.High, len(b))
		return b[lo:hi]
	}
	panic("sliceOp on " + fmt.Sprintf("%T", base))
}

func (e *Engine) typeAssert(fr *Frame, x *ssa.TypeAssert) Value {
	v := e.get(fr, x.X).(IfaceV)
	ok := false
	if v.T != nil {
		if it, isI := x.AssertedType.Underlying().(*types.Interface); isI {
			ok = types.Implements(v.T, it)
		} else {
			ok = types.Identical(v.T, x.AssertedType)
		}
	}
	var res Value
	if ok {
		if _, isI := x.AssertedType.Underlying().(*types.Interface); isI {
			res = v
		} else {
			res = v.V
		}
	} else {
		if !x.CommaOk {
			e.progPanic("interface conversion failed")
		}
		res = e.zero(x.AssertedType)
	}
	if x.CommaOk {
		return TupleV{res, e.tb.Bool(ok)}
	}
	return res
}

// ---- maps: association lists whose keys are pairwise different under the path condition

func (e *Engine) keyEq(a, b Value) *Term {
	switch x := a.(type) {
	case *Term:
		return e.tb.Eq(x, b.(*Term))
	case string:
		return e.tb.Bool(x == b.(string))
	case PtrV:
		return e.tb.Bool(x.L == b.(PtrV).L)
	case ChanV:
		return e.tb.Bool(x.C == b.(ChanV).C)
	case IfaceV:
		return e.valuesEqual(a, b)
	case *StructV:
		y := b.(*StructV)
		c := e.tb.Bool(true)
		for i := range x.F {
			c = e.tb.And(c, e.keyEq(x.F[i], y.F[i]))
		}
		return c
	}
	e.unmodelled(fmt.Sprintf("map key type %T", a))
	return nil
}

func (e *Engine) mapFind(m *MapObj, k Value) *MapEntry {
	// identical keys first
	for _, en := range m.entries {
		if c := e.keyEq(en.K, k); c.IsTrue() {
			return en
		}
	}
	for _, en := range m.entries {
		c := e.keyEq(en.K, k)
		if c.IsFalse() {
			continue
		}
		if e.decide(c, "mapkey") {
			return en
		}
	}
	return nil
}

func (e *Engine) mapLookup(m MapV, k Value) (Value, bool) {
	if m.M == nil {
		return nil, false
	}
	if en := e.mapFind(m.M, k); en != nil {
		return en.V, true
	}
	return nil, false
}

func (e *Engine) mapUpdate(m MapV, k, v Value) {
	if en := e.mapFind(m.M, k); en != nil {
		// entries are shared with iterators: replace value in place
		en.V = v
		return
	}
	m.M.entries = append(m.M.entries, &MapEntry{K: k, V: v})
}

func (e *Engine) mapDelete(m MapV, k Value) {
	if m.M == nil {
		return
	}
	if en := e.mapFind(m.M, k); en != nil {
		for i, x := range m.M.entries {
			if x == en {
				m.M.entries = append(append([]*MapEntry{}, m.M.entries[:i]...), m.M.entries[i+1:]...)
				return
			}
		}
	}
}

// ---- operators

func (e *Engine) valuesEqual(a, b Value) *Term {
	tb := e.tb
	switch x := a.(type) {
	case *Term:
		y := b.(*Term)
		if x.sort.K == KFP || x.sort == SortUFF {
			return e.fpCmp("fp.eq", x, y)
		}
		return tb.Eq(x, y)
	case string:
		return tb.Bool(x == b.(string))
	case PtrV:
		return tb.Bool(x.L == b.(PtrV).L)
	case ChanV:
		return tb.Bool(x.C == b.(ChanV).C)
	case MapV:
		return tb.Bool(x.M == b.(MapV).M)
	case SliceV:
		return tb.Bool(x.B == b.(SliceV).B)
	case FuncV:
		return tb.Bool(x.Fn == b.(FuncV).Fn && x.Builtin == b.(FuncV).Builtin)
	case IfaceV:
		y, ok := b.(IfaceV)
		if !ok { // comparing iface with nil const of another kind
			return tb.Bool(x.T == nil)
		}
		if x.T == nil || y.T == nil {
			return tb.Bool(x.T == nil && y.T == nil)
		}
		if !types.Identical(x.T, y.T) {
			return tb.Bool(false)
		}
		return e.valuesEqual(x.V, y.V)
	case *StructV:
		y := b.(*StructV)
		c := tb.Bool(true)
		for i := range x.F {
			c = tb.And(c, e.valuesEqual(x.F[i], y.F[i]))
		}
		return c
	case *ArrayV:
		y := b.(*ArrayV)
		c := tb.Bool(true)
		for i := range x.E {
			c = tb.And(c, e.valuesEqual(x.E[i], y.E[i]))
		}
		return c
	case nil:
		return tb.Bool(b == nil)
	}
	e.unmodelled(fmt.Sprintf("equality on %T", a))
	return nil
}

func (e *Engine) binop(op token.Token, x, y Value, xt, yt types.Type) Value {
	tb := e.tb
	if w, signed, ok := isInt(xt); ok {
		xv, yv := x.(*Term), y.(*Term)
		if op == token.SHL || op == token.SHR {
			yw, _, _ := isInt(yt)
			if !e.intMode && yw != w {
				if yv.IsConst() {
					yv = tb.BVBig(w, yv.val)
				} else if yw < w {
					yv = tb.ZeroExt(w-yw, yv)
				} else {
					e.unmodelled("shift by wider symbolic count")
				}
			}
		}
		return e.binopInt(op, xv, yv, w, signed)
	}
	switch {
	case isFloat(xt):
		return e.binopFloat(op, x.(*Term), y.(*Term))
	case isBool(xt):
		xv, yv := x.(*Term), y.(*Term)
		switch op {
		case token.EQL:
			return tb.Eq(xv, yv)
		case token.NEQ:
			return tb.Not(tb.Eq(xv, yv))
		case token.AND, token.LAND:
			return tb.And(xv, yv)
		case token.OR, token.LOR:
			return tb.Or(xv, yv)
		}
	case isString(xt):
		xs, ys := x.(string), y.(string)
		switch op {
		case token.ADD:
			return xs + ys
		case token.EQL:
			return tb.Bool(xs == ys)
		case token.NEQ:
			return tb.Bool(xs != ys)
		case token.LSS:
			return tb.Bool(xs < ys)
		}
	}
	switch op {
	case token.EQL:
		return e.valuesEqual(x, y)
	case token.NEQ:
		return tb.Not(e.valuesEqual(x, y))
	}
	e.unmodelled(fmt.Sprintf("binop %v on %v", op, xt))
	return nil
}

func (e *Engine) unop(fr *Frame, x *ssa.UnOp) Value {
	tb := e.tb
	v := e.get(fr, x.X)
	switch x.Op {
	case token.MUL: // load
		p := v.(PtrV)
		if p.L == nil {
			e.progPanic("nil pointer dereference at " + posOf(e.prog, x.Pos()))
		}
		if e.hb.on {
			if !e.hbInLibrary() && e.isLibraryStruct(p.L.typ) {
				// user code copies a whole value of a library struct type - which only happens implicitly, when a
				// method with a VALUE receiver is called through the pointer: the copy reads every field in the
				// caller's goroutine
				e.hbMemForce('R', p.L, posOf(e.prog, x.Pos())+" (implicit copy of the receiver)")
			} else {
				e.hbMem('R', p.L, posOf(e.prog, x.Pos()))
			}
		}
		return e.load(p.L)
	case token.NOT:
		return tb.Not(v.(*Term))
	case token.SUB:
		t := v.(*Term)
		if w, s, ok := isInt(x.X.Type()); ok {
			if e.intMode {
				return e.wrap(tb.IBin("-", tb.Int(0), t), w, s)
			}
			return tb.BVNeg(t)
		}
		return e.fpUn("fp.neg", t)
	case token.XOR:
		t := v.(*Term)
		if e.intMode {
			e.unmodelled("bitwise not in Int mode")
		}
		return tb.BVNot(t)
	case token.ARROW:
		ch := v.(ChanV)
		val, ok := e.chanRecv(ch.C, x.X.Type().Underlying().(*types.Chan).Elem(), posOf(e.prog, x.Pos()))
		if x.CommaOk {
			return TupleV{val, tb.Bool(ok)}
		}
		return val
	}
	e.unmodelled(fmt.Sprintf("unop %v", x.Op))
	return nil
}

// ---- calls

func (e *Engine) prepareCall(fr *Frame, c *ssa.CallCommon) (Value, []Value) {
	var args []Value
	if c.IsInvoke() {
		recv := e.get(fr, c.Value)
		args = append(args, recv)
		for _, a := range c.Args {
			args = append(args, e.get(fr, a))
		}
		return nil, args
	}
	for _, a := range c.Args {
		args = append(args, e.get(fr, a))
	}
	return e.get(fr, c.Value), args
}

func (e *Engine) invoke(c *ssa.CallCommon, fnv Value, args []Value) Value {
	if c != nil && c.IsInvoke() {
		recv := args[0].(IfaceV)
		if recv.T == nil {
			e.progPanic("method call on nil interface: " + c.Method.Name())
		}
		if v, ok := e.invokeBuiltinIface(recv, c.Method.Name(), args[1:]); ok {
			return v
		}
		m := e.prog.LookupMethod(recv.T, c.Method.Pkg(), c.Method.Name())
		if m == nil {
			e.unmodelled("method lookup failed: " + c.Method.Name())
		}
		return e.call(m, append([]Value{recv.V}, args[1:]...), nil)
	}
	f := fnv.(FuncV)
	if strings.HasPrefix(f.Builtin, "builtin:") {
		return e.builtin(f.Builtin[8:], args, c)
	}
	if f.Builtin != "" {
		return e.engineClosure(f, args)
	}
	if f.Fn == nil {
		e.progPanic("call of nil function")
	}
	return e.call(f.Fn, args, f.Env)
}

func (e *Engine) callValue(f Value, args ...Value) Value {
	return e.invoke(nil, f, args)
}

func (e *Engine) builtin(name string, args []Value, c *ssa.CallCommon) Value {
	tb := e.tb
	switch name {
	case "len":
		switch x := args[0].(type) {
		case SliceV:
			return e.intConst(64, int64(x.Len))
		case string:
			return e.intConst(64, int64(len(x)))
		case MapV:
			if x.M == nil {
				return e.intConst(64, 0)
			}
			return e.intConst(64, int64(len(x.M.entries)))
		case ChanV:
			if x.C == nil {
				return e.intConst(64, 0)
			}
			return e.intConst(64, int64(len(x.C.buf)))
		case PtrV:
			return e.intConst(64, int64(len(x.L.kids)))
		}
	case "cap":
		switch x := args[0].(type) {
		case SliceV:
			return e.intConst(64, int64(x.Cap))
		case ChanV:
			if x.C == nil {
				return e.intConst(64, 0)
			}
			if x.C.capTerm != nil {
				return x.C.capTerm
			}
			return e.intConst(64, int64(x.C.cap))
		}
	case "append":
		s := args[0].(SliceV)
		var add []Value
		var elemT types.Type
		switch t := args[1].(type) {
		case SliceV:
			for i := 0; i < t.Len; i++ {
				if e.hb.on {
					e.hbMem('R', t.B.cells[t.Off+i], "append(src)")
				}
				add = append(add, e.load(t.B.cells[t.Off+i]))
			}
			if t.B != nil {
				elemT = t.B.elemT
			}
		case string:
			for i := 0; i < len(t); i++ {
				add = append(add, e.intConst(8, int64(t[i])))
			}
		}
		if s.B != nil {
			elemT = s.B.elemT
		}
		if elemT == nil {
			elemT = c.Args[0].Type().Underlying().(*types.Slice).Elem()
		}
		if len(add) == 0 {
			return s
		}
		if s.Len+len(add) <= s.Cap {
			for i, v := range add {
				if e.hb.on {
					e.hbMem('W', s.B.cells[s.Off+s.Len+i], "append")
				}
				e.store(s.B.cells[s.Off+s.Len+i], v)
			}
			return SliceV{B: s.B, Off: s.Off, Len: s.Len + len(add), Cap: s.Cap}
		}
		ncap := 2 * s.Cap
		if ncap < s.Len+len(add) {
			ncap = s.Len + len(add)
		}
		nb := e.newBacking(elemT, ncap)
		for i := 0; i < s.Len; i++ {
			nb.cells[i].v = nil
			e.storeQuiet(nb.cells[i], e.load(s.B.cells[s.Off+i]))
		}
		for i, v := range add {
			e.storeQuiet(nb.cells[s.Len+i], v)
		}
		return SliceV{B: nb, Off: 0, Len: s.Len + len(add), Cap: ncap}
	case "copy":
		dst := args[0].(SliceV)
		n := 0
		switch src := args[1].(type) {
		case SliceV:
			n = min(dst.Len, src.Len)
			vals := make([]Value, n)
			for i := 0; i < n; i++ {
				if e.hb.on {
					e.hbMem('R', src.B.cells[src.Off+i], "copy")
				}
				vals[i] = e.load(src.B.cells[src.Off+i])
			}
			for i := 0; i < n; i++ {
				if e.hb.on {
					e.hbMem('W', dst.B.cells[dst.Off+i], "copy")
				}
				e.store(dst.B.cells[dst.Off+i], vals[i])
			}
		}
		return e.intConst(64, int64(n))
	case "delete":
		if e.hb.on {
			e.hbMap('W', args[0].(MapV).M, "delete")
		}
		e.mapDelete(args[0].(MapV), args[1])
		return nil
	case "close":
		e.chanClose(args[0].(ChanV).C)
		return nil
	case "panic":
		e.progPanic("panic: " + e.describe(args[0]))
	case "print", "println":
		return nil
	case "min", "max":
		x, y := args[0].(*Term), args[1].(*Term)
		w, s, _ := isInt(c.Args[0].Type())
		lt := e.binopInt(token.LSS, x, y, w, s).(*Term)
		if name == "min" {
			return tb.Ite(lt, x, y)
		}
		return tb.Ite(lt, y, x)
	}
	e.unmodelled("builtin " + name)
	return nil
}

func (e *Engine) storeQuiet(l *Loc, v Value) {
	save := e.onStore
	e.onStore = nil
	e.store(l, v)
	e.onStore = save
}

// isLibraryStruct: a named struct type declared in the modules under test (not in a harness file)
func (e *Engine) isLibraryStruct(t types.Type) bool {
	n, ok := t.(*types.Named)
	if !ok {
		return false
	}
	if _, ok := n.Underlying().(*types.Struct); !ok {
		return false
	}
	obj := n.Obj()
	if obj == nil || obj.Pkg() == nil || !strings.HasPrefix(obj.Pkg().Path(), "github.com/akramarenkov/") {
		return false
	}
	if obj.Pos().IsValid() && strings.Contains(e.prog.Fset.Position(obj.Pos()).Filename, "zz_verif_") {
		return false
	}
	return true
}
