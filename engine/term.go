package main

// Term DAG with hash-consing, constant folding and an SMT-LIB2 printer.

import (
	"fmt"
	"math"
	"math/big"
	"sort"
	"strconv"
	"strings"
)

type SortKind int

const (
	KBool SortKind = iota
	KBV
	KInt
	KFP // exact IEEE float64
	KUF // uninterpreted sort (name in Sort.Name)
)

type Sort struct {
	K    SortKind
	W    int
	Name string
}

func (s Sort) String() string {
	switch s.K {
	case KBool:
		return "Bool"
	case KBV:
		return fmt.Sprintf("(_ BitVec %d)", s.W)
	case KInt:
		return "Int"
	case KFP:
		return "(_ FloatingPoint 11 53)"
	case KUF:
		return s.Name
	}
	return "?"
}

var (
	SortBool = Sort{K: KBool}
	SortInt  = Sort{K: KInt}
	SortFP   = Sort{K: KFP}
	SortUFF  = Sort{K: KUF, Name: "UFloat"}
)

func SortBV(w int) Sort { return Sort{K: KBV, W: w} }

type Term struct {
	id   int
	op   string // "const", "var", "app:<name>" or an SMT operator
	sort Sort
	args []*Term
	p1   int // index parameters (extract hi / extend amount)
	p2   int
	val  *big.Int // const BV (unsigned canonical) / Int
	bval bool
	fval float64
	name string // var name or UF name
}

func (t *Term) IsConst() bool { return t.op == "const" }
func (t *Term) IsTrue() bool  { return t.op == "const" && t.sort.K == KBool && t.bval }
func (t *Term) IsFalse() bool { return t.op == "const" && t.sort.K == KBool && !t.bval }

type UFDecl struct {
	Name string
	Args []Sort
	Res  Sort
}

type TB struct {
	tab      map[string]*Term
	next     int
	ufs      map[string]*UFDecl
	distinct map[int]int // var term id -> distinct group id
	nfold    int
}

func NewTB() *TB {
	return &TB{tab: map[string]*Term{}, ufs: map[string]*UFDecl{}, distinct: map[int]int{}}
}

func (b *TB) intern(t *Term) *Term {
	var sb strings.Builder
	sb.WriteString(t.op)
	sb.WriteByte('|')
	sb.WriteString(t.sort.String())
	sb.WriteByte('|')
	switch t.op {
	case "const":
		switch t.sort.K {
		case KBool:
			if t.bval {
				sb.WriteString("T")
			} else {
				sb.WriteString("F")
			}
		case KFP:
			sb.WriteString(strconv.FormatUint(math.Float64bits(t.fval), 16))
		default:
			sb.WriteString(t.val.String())
		}
	case "var":
		sb.WriteString(t.name)
	default:
		sb.WriteString(t.name)
		sb.WriteByte('|')
		sb.WriteString(strconv.Itoa(t.p1))
		sb.WriteByte(',')
		sb.WriteString(strconv.Itoa(t.p2))
		for _, a := range t.args {
			sb.WriteByte(',')
			sb.WriteString(strconv.Itoa(a.id))
		}
	}
	k := sb.String()
	if e, ok := b.tab[k]; ok {
		return e
	}
	b.next++
	t.id = b.next
	b.tab[k] = t
	return t
}

// ---- constants

func (b *TB) Bool(v bool) *Term { return b.intern(&Term{op: "const", sort: SortBool, bval: v}) }

var bigOne = big.NewInt(1)

func mask(w int) *big.Int {
	m := new(big.Int).Lsh(bigOne, uint(w))
	return m.Sub(m, bigOne)
}

func (b *TB) BVBig(w int, v *big.Int) *Term {
	x := new(big.Int).And(v, mask(w)) // big.Int And on negative uses two's complement semantics
	if v.Sign() < 0 {
		x = new(big.Int).Mod(v, new(big.Int).Lsh(bigOne, uint(w)))
	}
	return b.intern(&Term{op: "const", sort: SortBV(w), val: x})
}
func (b *TB) BV(w int, v uint64) *Term   { return b.BVBig(w, new(big.Int).SetUint64(v)) }
func (b *TB) BVS(w int, v int64) *Term   { return b.BVBig(w, big.NewInt(v)) }
func (b *TB) IntBig(v *big.Int) *Term    { return b.intern(&Term{op: "const", sort: SortInt, val: new(big.Int).Set(v)}) }
func (b *TB) Int(v int64) *Term          { return b.IntBig(big.NewInt(v)) }
func (b *TB) FP(v float64) *Term         { return b.intern(&Term{op: "const", sort: SortFP, fval: v}) }
func (b *TB) Var(n string, s Sort) *Term { return b.intern(&Term{op: "var", sort: s, name: n}) }

func (b *TB) mk(op string, s Sort, args ...*Term) *Term {
	return b.intern(&Term{op: op, sort: s, args: args})
}
func (b *TB) mkp(op string, s Sort, p1, p2 int, args ...*Term) *Term {
	return b.intern(&Term{op: op, sort: s, args: args, p1: p1, p2: p2})
}

// MarkDistinct records that the given variable terms are pairwise different.
func (b *TB) MarkDistinct(ts []*Term) {
	g := len(b.distinct) + 1000000 + ts[0].id
	for _, t := range ts {
		if t.op == "var" {
			b.distinct[t.id] = g
		}
	}
}

// ---- boolean

func (b *TB) Not(a *Term) *Term {
	if a.IsConst() {
		return b.Bool(!a.bval)
	}
	if a.op == "not" {
		return a.args[0]
	}
	return b.mk("not", SortBool, a)
}

func (b *TB) And(xs ...*Term) *Term {
	var out []*Term
	seen := map[int]bool{}
	for _, x := range xs {
		if x.IsFalse() {
			return x
		}
		if x.IsTrue() || seen[x.id] {
			continue
		}
		seen[x.id] = true
		if x.op == "and" {
			for _, y := range x.args {
				if !seen[y.id] {
					seen[y.id] = true
					out = append(out, y)
				}
			}
			continue
		}
		out = append(out, x)
	}
	for _, x := range out {
		if x.op == "not" && seen[x.args[0].id] {
			return b.Bool(false)
		}
	}
	if len(out) == 0 {
		return b.Bool(true)
	}
	if len(out) == 1 {
		return out[0]
	}
	return b.mk("and", SortBool, out...)
}

func (b *TB) Or(xs ...*Term) *Term {
	var out []*Term
	seen := map[int]bool{}
	for _, x := range xs {
		if x.IsTrue() {
			return x
		}
		if x.IsFalse() || seen[x.id] {
			continue
		}
		seen[x.id] = true
		out = append(out, x)
	}
	for _, x := range out {
		if x.op == "not" && seen[x.args[0].id] {
			return b.Bool(true)
		}
	}
	if len(out) == 0 {
		return b.Bool(false)
	}
	if len(out) == 1 {
		return out[0]
	}
	return b.mk("or", SortBool, out...)
}

func (b *TB) Implies(a, c *Term) *Term { return b.Or(b.Not(a), c) }

func (b *TB) Ite(c, x, y *Term) *Term {
	if c.IsConst() {
		if c.bval {
			return x
		}
		return y
	}
	if x == y {
		return x
	}
	if x.sort.K == KBool {
		if x.IsTrue() && y.IsFalse() {
			return c
		}
		if x.IsFalse() && y.IsTrue() {
			return b.Not(c)
		}
		if x.IsTrue() {
			return b.Or(c, y)
		}
		if x.IsFalse() {
			return b.And(b.Not(c), y)
		}
		if y.IsTrue() {
			return b.Or(b.Not(c), x)
		}
		if y.IsFalse() {
			return b.And(c, x)
		}
	}
	return b.mk("ite", x.sort, c, x, y)
}

// EqRaw builds an equality without using the recorded distinctness facts (needed
// to put those very facts into the path condition).
func (b *TB) EqRaw(x, y *Term) *Term {
	if x == y {
		return b.Bool(true)
	}
	if x.IsConst() && y.IsConst() {
		return b.Eq(x, y)
	}
	if x.id > y.id {
		x, y = y, x
	}
	return b.mk("=", SortBool, x, y)
}

func (b *TB) Eq(x, y *Term) *Term {
	if x == y {
		if x.sort.K != KFP { // fp = is structural equality in SMT-LIB, fine
			return b.Bool(true)
		}
		return b.Bool(true)
	}
	if x.sort != y.sort {
		panic(fmt.Sprintf("Eq sort mismatch %v %v (%s vs %s)", x.sort, y.sort, b.Str(x), b.Str(y)))
	}
	if x.IsConst() && y.IsConst() {
		switch x.sort.K {
		case KBool:
			return b.Bool(x.bval == y.bval)
		case KFP:
			return b.Bool(math.Float64bits(x.fval) == math.Float64bits(y.fval))
		default:
			return b.Bool(x.val.Cmp(y.val) == 0)
		}
	}
	if x.op == "var" && y.op == "var" {
		gx, ok1 := b.distinct[x.id]
		gy, ok2 := b.distinct[y.id]
		if ok1 && ok2 && gx == gy {
			return b.Bool(false)
		}
	}
	if x.sort.K == KBool {
		if x.IsConst() {
			if x.bval {
				return y
			}
			return b.Not(y)
		}
		if y.IsConst() {
			if y.bval {
				return x
			}
			return b.Not(x)
		}
	}
	// push equality with a constant through ite of constants (typical for bool->int encodings)
	if y.IsConst() && x.op == "ite" && x.args[1].IsConst() && x.args[2].IsConst() {
		return b.Ite(x.args[0], b.Eq(x.args[1], y), b.Eq(x.args[2], y))
	}
	if x.IsConst() && y.op == "ite" && y.args[1].IsConst() && y.args[2].IsConst() {
		return b.Ite(y.args[0], b.Eq(y.args[1], x), b.Eq(y.args[2], x))
	}
	if x.id > y.id {
		x, y = y, x
	}
	return b.mk("=", SortBool, x, y)
}

// ---- bit-vectors

func toSigned(v *big.Int, w int) *big.Int {
	if v.Bit(w-1) == 1 {
		return new(big.Int).Sub(v, new(big.Int).Lsh(bigOne, uint(w)))
	}
	return new(big.Int).Set(v)
}

func (b *TB) BVBin(op string, x, y *Term) *Term {
	w := x.sort.W
	if x.sort != y.sort || x.sort.K != KBV {
		panic(fmt.Sprintf("BVBin %s sort mismatch %v %v", op, x.sort, y.sort))
	}
	if x.IsConst() && y.IsConst() {
		b.nfold++
		a, c := x.val, y.val
		r := new(big.Int)
		switch op {
		case "bvadd":
			r.Add(a, c)
		case "bvsub":
			r.Sub(a, c)
		case "bvmul":
			r.Mul(a, c)
		case "bvand":
			r.And(a, c)
		case "bvor":
			r.Or(a, c)
		case "bvxor":
			r.Xor(a, c)
		case "bvudiv":
			if c.Sign() == 0 {
				r = mask(w)
			} else {
				r.Quo(a, c)
			}
		case "bvurem":
			if c.Sign() == 0 {
				r.Set(a)
			} else {
				r.Rem(a, c)
			}
		case "bvsdiv":
			sa, sc := toSigned(a, w), toSigned(c, w)
			if sc.Sign() == 0 {
				if sa.Sign() >= 0 {
					r = mask(w)
				} else {
					r.SetInt64(1)
				}
			} else {
				r.Quo(sa, sc)
			}
		case "bvsrem":
			sa, sc := toSigned(a, w), toSigned(c, w)
			if sc.Sign() == 0 {
				r.Set(sa)
			} else {
				r.Rem(sa, sc)
			}
		case "bvshl":
			if c.Cmp(big.NewInt(int64(w))) >= 0 {
				r.SetInt64(0)
			} else {
				r.Lsh(a, uint(c.Uint64()))
			}
		case "bvlshr":
			if c.Cmp(big.NewInt(int64(w))) >= 0 {
				r.SetInt64(0)
			} else {
				r.Rsh(a, uint(c.Uint64()))
			}
		case "bvashr":
			sa := toSigned(a, w)
			sh := uint(w)
			if c.Cmp(big.NewInt(int64(w))) < 0 {
				sh = uint(c.Uint64())
			}
			r.Rsh(sa, sh)
		default:
			panic("BVBin fold " + op)
		}
		return b.BVBig(w, r)
	}
	// light identities
	isZero := func(t *Term) bool { return t.IsConst() && t.val.Sign() == 0 }
	switch op {
	case "bvadd":
		if isZero(x) {
			return y
		}
		if isZero(y) {
			return x
		}
		if x.IsConst() { // canonical: constant last
			x, y = y, x
		}
		// (a + c1) + c2
		if y.IsConst() && x.op == "bvadd" && x.args[1].IsConst() {
			return b.BVBin("bvadd", x.args[0], b.BVBin("bvadd", x.args[1], y))
		}
	case "bvsub":
		if isZero(y) {
			return x
		}
		if x == y {
			return b.BV(w, 0)
		}
		if y.IsConst() {
			return b.BVBin("bvadd", x, b.BVBig(w, new(big.Int).Neg(y.val)))
		}
	case "bvmul":
		if isZero(x) || isZero(y) {
			return b.BV(w, 0)
		}
		if x.IsConst() && x.val.Cmp(bigOne) == 0 {
			return y
		}
		if y.IsConst() && y.val.Cmp(bigOne) == 0 {
			return x
		}
	case "bvand":
		if isZero(x) || isZero(y) {
			return b.BV(w, 0)
		}
	case "bvor", "bvxor":
		if isZero(x) {
			return y
		}
		if isZero(y) {
			return x
		}
	case "bvshl", "bvlshr", "bvashr":
		if isZero(y) {
			return x
		}
	case "bvudiv", "bvsdiv":
		if y.IsConst() && y.val.Cmp(bigOne) == 0 {
			return x
		}
	}
	return b.mk(op, x.sort, x, y)
}

func (b *TB) BVNeg(x *Term) *Term { return b.BVBin("bvsub", b.BV(x.sort.W, 0), x) }
func (b *TB) BVNot(x *Term) *Term {
	if x.IsConst() {
		return b.BVBig(x.sort.W, new(big.Int).Xor(x.val, mask(x.sort.W)))
	}
	return b.mk("bvnot", x.sort, x)
}

func (b *TB) BVCmp(op string, x, y *Term) *Term {
	if x.sort != y.sort {
		panic(fmt.Sprintf("BVCmp %s sort mismatch %v %v", op, x.sort, y.sort))
	}
	w := x.sort.W
	if x.IsConst() && y.IsConst() {
		var c int
		if op[2] == 's' {
			c = toSigned(x.val, w).Cmp(toSigned(y.val, w))
		} else {
			c = x.val.Cmp(y.val)
		}
		switch op {
		case "bvult", "bvslt":
			return b.Bool(c < 0)
		case "bvule", "bvsle":
			return b.Bool(c <= 0)
		}
		panic(op)
	}
	if x == y {
		return b.Bool(op == "bvule" || op == "bvsle")
	}
	if op == "bvult" && y.IsConst() && y.val.Sign() == 0 {
		return b.Bool(false)
	}
	if op == "bvule" && x.IsConst() && x.val.Sign() == 0 {
		return b.Bool(true)
	}
	return b.mk(op, SortBool, x, y)
}

func (b *TB) Extract(hi, lo int, x *Term) *Term {
	if lo == 0 && hi == x.sort.W-1 {
		return x
	}
	if x.IsConst() {
		r := new(big.Int).Rsh(x.val, uint(lo))
		return b.BVBig(hi-lo+1, r)
	}
	return b.mkp("extract", SortBV(hi-lo+1), hi, lo, x)
}
func (b *TB) ZeroExt(k int, x *Term) *Term {
	if k == 0 {
		return x
	}
	if x.IsConst() {
		return b.BVBig(x.sort.W+k, x.val)
	}
	return b.mkp("zero_extend", SortBV(x.sort.W+k), k, 0, x)
}
func (b *TB) SignExt(k int, x *Term) *Term {
	if k == 0 {
		return x
	}
	if x.IsConst() {
		return b.BVBig(x.sort.W+k, toSigned(x.val, x.sort.W))
	}
	return b.mkp("sign_extend", SortBV(x.sort.W+k), k, 0, x)
}

// ---- mathematical integers

func (b *TB) IBin(op string, x, y *Term) *Term {
	if x.sort.K != KInt || y.sort.K != KInt {
		panic("IBin sorts " + op)
	}
	if x.IsConst() && y.IsConst() {
		r := new(big.Int)
		switch op {
		case "+":
			r.Add(x.val, y.val)
		case "-":
			r.Sub(x.val, y.val)
		case "*":
			r.Mul(x.val, y.val)
		case "div": // SMT-LIB euclidean
			if y.val.Sign() == 0 {
				goto sym
			}
			m := new(big.Int)
			r.DivMod(x.val, y.val, m)
		case "mod":
			if y.val.Sign() == 0 {
				goto sym
			}
			r.Mod(x.val, y.val)
		default:
			panic(op)
		}
		return b.IntBig(r)
	}
sym:
	isC := func(t *Term, v int64) bool { return t.IsConst() && t.val.IsInt64() && t.val.Int64() == v }
	switch op {
	case "+":
		if isC(x, 0) {
			return y
		}
		if isC(y, 0) {
			return x
		}
	case "-":
		if isC(y, 0) {
			return x
		}
		if x == y {
			return b.Int(0)
		}
	case "*":
		if isC(x, 0) || isC(y, 0) {
			return b.Int(0)
		}
		if isC(x, 1) {
			return y
		}
		if isC(y, 1) {
			return x
		}
	case "div":
		if isC(y, 1) {
			return x
		}
	}
	return b.mk(op, SortInt, x, y)
}

func (b *TB) ICmp(op string, x, y *Term) *Term {
	if x.IsConst() && y.IsConst() {
		c := x.val.Cmp(y.val)
		switch op {
		case "<":
			return b.Bool(c < 0)
		case "<=":
			return b.Bool(c <= 0)
		}
		panic(op)
	}
	if x == y {
		return b.Bool(op == "<=")
	}
	return b.mk(op, SortBool, x, y)
}

// ---- floats (exact)

func (b *TB) FPBin(op string, x, y *Term) *Term {
	if x.IsConst() && y.IsConst() {
		var r float64
		switch op {
		case "fp.add":
			r = x.fval + y.fval
		case "fp.sub":
			r = x.fval - y.fval
		case "fp.mul":
			r = x.fval * y.fval
		case "fp.div":
			r = x.fval / y.fval
		}
		return b.FP(r)
	}
	return b.mk(op, SortFP, x, y)
}
func (b *TB) FPCmp(op string, x, y *Term) *Term {
	if x.IsConst() && y.IsConst() {
		switch op {
		case "fp.lt":
			return b.Bool(x.fval < y.fval)
		case "fp.leq":
			return b.Bool(x.fval <= y.fval)
		case "fp.eq":
			return b.Bool(x.fval == y.fval)
		}
	}
	return b.mk(op, SortBool, x, y)
}
func (b *TB) FPUn(op string, x *Term) *Term {
	if x.IsConst() {
		switch op {
		case "fp.neg":
			return b.FP(-x.fval)
		case "fp.abs":
			return b.FP(math.Abs(x.fval))
		case "fp.roundRNA":
			return b.FP(math.Round(x.fval))
		}
	}
	return b.mk(op, SortFP, x)
}

// FPUnPred: fp.isNaN / fp.isNegative / fp.isZero ...
func (b *TB) FPUnPred(op string, x *Term) *Term {
	if x.IsConst() {
		switch op {
		case "fp.isNaN":
			return b.Bool(math.IsNaN(x.fval))
		case "fp.isNegative":
			return b.Bool(math.Signbit(x.fval) && !math.IsNaN(x.fval))
		}
	}
	return b.mk(op, SortBool, x)
}

// unsigned/signed BV -> FP
func (b *TB) FPFromBV(x *Term, signed bool) *Term {
	if x.IsConst() {
		if signed {
			return b.FP(float64(toSigned(x.val, x.sort.W).Int64()))
		}
		return b.FP(float64(x.val.Uint64()))
	}
	if signed {
		return b.mk("to_fp_signed", SortFP, x)
	}
	return b.mk("to_fp_unsigned", SortFP, x)
}

// FP -> BV(w) (round toward zero). Out-of-range is unspecified in SMT-LIB and
// implementation-specific in Go; the callers assert range separately.
func (b *TB) FPToBV(x *Term, w int, signed bool) *Term {
	if x.IsConst() && !math.IsNaN(x.fval) && !math.IsInf(x.fval, 0) {
		f := math.Trunc(x.fval)
		if signed && f >= -9.2e18 && f <= 9.2e18 {
			return b.BVS(w, int64(f))
		}
		if !signed && f >= 0 && f < 1.8e19 {
			return b.BV(w, uint64(f))
		}
	}
	if signed {
		return b.mkp("fp.to_sbv", SortBV(w), w, 0, x)
	}
	return b.mkp("fp.to_ubv", SortBV(w), w, 0, x)
}

// ---- uninterpreted functions

func (b *TB) App(name string, res Sort, args ...*Term) *Term {
	if _, ok := b.ufs[name]; !ok {
		d := &UFDecl{Name: name, Res: res}
		for _, a := range args {
			d.Args = append(d.Args, a.sort)
		}
		b.ufs[name] = d
	}
	return b.intern(&Term{op: "app", sort: res, args: args, name: name})
}

// ---- printing

func fpLit(f float64) string {
	bits := math.Float64bits(f)
	s := fmt.Sprintf("%064b", bits)
	return fmt.Sprintf("(fp #b%s #b%s #b%s)", s[0:1], s[1:12], s[12:])
}

func (b *TB) head(t *Term) string {
	switch t.op {
	case "extract":
		return fmt.Sprintf("(_ extract %d %d)", t.p1, t.p2)
	case "zero_extend":
		return fmt.Sprintf("(_ zero_extend %d)", t.p1)
	case "sign_extend":
		return fmt.Sprintf("(_ sign_extend %d)", t.p1)
	case "to_fp_unsigned":
		return "(_ to_fp_unsigned 11 53) RNE"
	case "to_fp_signed":
		return "(_ to_fp 11 53) RNE"
	case "fp.to_ubv":
		return fmt.Sprintf("(_ fp.to_ubv %d) RTZ", t.p1)
	case "fp.to_sbv":
		return fmt.Sprintf("(_ fp.to_sbv %d) RTZ", t.p1)
	case "fp.add", "fp.sub", "fp.mul", "fp.div":
		return t.op + " RNE"
	case "fp.roundRNA":
		return "fp.roundToIntegral RNA"
	case "app":
		return t.name
	case "int2bv":
		return fmt.Sprintf("(_ int2bv %d)", t.p1)
	}
	return t.op
}

func (b *TB) leaf(t *Term) (string, bool) {
	switch t.op {
	case "const":
		switch t.sort.K {
		case KBool:
			if t.bval {
				return "true", true
			}
			return "false", true
		case KBV:
			if t.sort.W%4 == 0 {
				return fmt.Sprintf("#x%0*s", t.sort.W/4, t.val.Text(16)), true
			}
			return fmt.Sprintf("#b%0*s", t.sort.W, t.val.Text(2)), true
		case KInt:
			if t.val.Sign() < 0 {
				return "(- " + new(big.Int).Neg(t.val).String() + ")", true
			}
			return t.val.String(), true
		case KFP:
			if math.IsNaN(t.fval) {
				return "(_ NaN 11 53)", true
			}
			return fpLit(t.fval), true
		}
	case "var":
		return t.name, true
	case "app":
		if len(t.args) == 0 {
			return t.name, true
		}
	}
	return "", false
}

// Str prints a term with let-bindings for shared sub-terms.
func (b *TB) Str(t *Term) string {
	refs := map[int]int{}
	var order []*Term
	var walk func(*Term)
	walk = func(x *Term) {
		refs[x.id]++
		if refs[x.id] > 1 {
			return
		}
		for _, a := range x.args {
			walk(a)
		}
		order = append(order, x) // post-order
	}
	walk(t)
	names := map[int]string{}
	var pr func(x *Term, top bool) string
	pr = func(x *Term, top bool) string {
		if !top {
			if n, ok := names[x.id]; ok {
				return n
			}
		}
		if s, ok := b.leaf(x); ok {
			return s
		}
		var sb strings.Builder
		sb.WriteByte('(')
		sb.WriteString(b.head(x))
		for _, a := range x.args {
			sb.WriteByte(' ')
			sb.WriteString(pr(a, false))
		}
		sb.WriteByte(')')
		return sb.String()
	}
	var sb strings.Builder
	nlet := 0
	for _, x := range order {
		if x == t {
			continue
		}
		if refs[x.id] > 1 {
			if _, isLeaf := b.leaf(x); isLeaf {
				continue
			}
			n := fmt.Sprintf("?t%d", x.id)
			sb.WriteString("(let ((" + n + " " + pr(x, true) + ")) ")
			names[x.id] = n
			nlet++
		}
	}
	sb.WriteString(pr(t, true))
	sb.WriteString(strings.Repeat(")", nlet))
	return sb.String()
}

// Vars returns the free variables and UF names used in the terms (sorted by name).
func (b *TB) Vars(ts []*Term) (vars []*Term, ufs []*UFDecl) {
	seen := map[int]bool{}
	ufSeen := map[string]bool{}
	var walk func(*Term)
	walk = func(x *Term) {
		if seen[x.id] {
			return
		}
		seen[x.id] = true
		if x.op == "var" {
			vars = append(vars, x)
		}
		if x.op == "app" && !ufSeen[x.name] {
			ufSeen[x.name] = true
			ufs = append(ufs, b.ufs[x.name])
		}
		for _, a := range x.args {
			walk(a)
		}
	}
	for _, t := range ts {
		walk(t)
	}
	sort.Slice(vars, func(i, j int) bool { return vars[i].name < vars[j].name })
	sort.Slice(ufs, func(i, j int) bool { return ufs[i].Name < ufs[j].Name })
	return
}

// Size = number of distinct nodes
func (b *TB) Size(t *Term) int {
	seen := map[int]bool{}
	var walk func(*Term)
	walk = func(x *Term) {
		if seen[x.id] {
			return
		}
		seen[x.id] = true
		for _, a := range x.args {
			walk(a)
		}
	}
	walk(t)
	return len(seen)
}
