package main

import (
	"fmt"
	"go/token"
	"go/types"
	"math"
	"math/big"
	"strings"

	"golang.org/x/tools/go/ssa"
)

type CtxObj struct {
	done     *ChanObj
	children []*CtxObj
}

var ctxMarker = types.NewNamed(types.NewTypeName(token.NoPos, nil, "gosymContext", nil), types.NewStruct(nil, nil), nil)

func (e *Engine) stub(name string) { e.h.Stubs[name]++ }

func fnKey(fn *ssa.Function) string {
	f := fn
	if f.Origin() != nil {
		f = f.Origin()
	}
	return f.String()
}

func unwrapAny(v Value) Value {
	if i, ok := v.(IfaceV); ok {
		return i.V
	}
	return v
}

func chanOf(v Value) *ChanObj {
	v = unwrapAny(v)
	if c, ok := v.(ChanV); ok {
		return c.C
	}
	panic(fmt.Sprintf("expected channel, got %T", v))
}

func (e *Engine) intercept(fn *ssa.Function, args []Value) (Value, bool) {
	key := fnKey(fn)
	tb := e.tb
	// harness intrinsics live in the package under test and start with "v" + capital
	name := fn.Name()
	if fn.Origin() != nil {
		name = fn.Origin().Name()
	}
	if len(name) > 1 && name[0] == 'v' && name[1] >= 'A' && name[1] <= 'Z' && fn.Signature.Recv() == nil {
		if v, ok := e.intrinsic(name, fn, args); ok {
			return v, true
		}
	}
	switch key {
	// ---- time
	case "(time.Time).IsZero":
		// the engine's time values count from an arbitrary origin: the zero Time is the struct whose instant is 0
		e.stub(key)
		return tb.Eq(args[0].(*StructV).F[1].(*Term), e.intConst(64, 0)), true
	case "time.Now":
		e.stub(key)
		e.advanceClock(nil)
		return e.timeValue(e.path.now), true
	case "time.Since":
		e.stub(key)
		e.advanceClock(nil)
		t := args[0].(*StructV).F[1].(*Term)
		return e.binopInt(token.SUB, e.path.now, t, 64, true), true
	case "(time.Time).Sub":
		e.stub(key)
		return e.binopInt(token.SUB, args[0].(*StructV).F[1].(*Term), args[1].(*StructV).F[1].(*Term), 64, true), true
	case "time.Sleep":
		e.stub(key)
		e.sleeps = append(e.sleeps, args[0].(*Term))
		e.tracef("sleep")
		if e.sleepBudget >= 0 && len(e.sleeps) > e.sleepBudget {
			e.abort("HORIZON", "sleep budget exhausted")
		}
		e.advanceClock(args[0].(*Term))
		return nil, true
	case "time.NewTicker":
		e.stub(key)
		if e.noTickerMsg != "" {
			e.unmodelled(e.noTickerMsg)
		}
		d := args[0].(*Term)
		if e.decide(e.binopInt(token.LEQ, d, e.intConst(64, 0), 64, true).(*Term), "ticker-nonpositive") {
			e.progPanic("non-positive interval for NewTicker")
		}
		tt := fn.Signature.Results().At(0).Type().(*types.Pointer).Elem()
		l := e.newLoc(tt)
		st := tt.Underlying().(*types.Struct)
		c := e.newChan(nil, 1)
		c.ticker = true
		c.name = fmt.Sprintf("ticker%d", c.id)
		for i := 0; i < st.NumFields(); i++ {
			if st.Field(i).Name() == "C" {
				l.kids[i].v = ChanV{c}
				c.elemT = st.Field(i).Type().Underlying().(*types.Chan).Elem()
			}
		}
		e.tickers[l] = c
		e.tickerPeriod = append(e.tickerPeriod, d)
		if e.precise {
			// first tick: one period after creation (plus jitter)
			e.clockInit()
			c.period = d
			nd := e.nondetInt("due", 64, true)
			base := e.binopInt(token.ADD, e.path.now, d, 64, true).(*Term)
			e.addPC(e.binopInt(token.LEQ, base, nd, 64, true).(*Term))
			lim := base
			if e.latency != nil {
				lim = e.binopInt(token.ADD, base, e.latency, 64, true).(*Term)
			}
			e.addPC(e.binopInt(token.LEQ, nd, lim, 64, true).(*Term))
			c.nextDue = nd
		}
		return PtrV{l}, true
	case "(*time.Ticker).Reset":
		e.stub(key)
		// re-arming: the next tick is a full (new) period away from now; recorded so that harnesses can
		// tell a periodic ticker from one that is pushed forward
		e.tickerResets++
		e.tracef("ticker.Reset")
		if c := e.tickers[args[0].(PtrV).L]; c != nil {
			c.stopped = false
			if e.precise {
				e.clockInit()
				d := args[1].(*Term)
				c.period = d
				nd := e.nondetInt("due", 64, true)
				base := e.binopInt(token.ADD, e.path.now, d, 64, true).(*Term)
				e.addPC(e.binopInt(token.LEQ, base, nd, 64, true).(*Term))
				lim := base
				if e.latency != nil {
					lim = e.binopInt(token.ADD, base, e.latency, 64, true).(*Term)
				}
				e.addPC(e.binopInt(token.LEQ, nd, lim, 64, true).(*Term))
				c.nextDue = nd
			}
		}
		return nil, true
	case "(*time.Ticker).Stop":
		e.stub(key)
		if c := e.tickers[args[0].(PtrV).L]; c != nil {
			c.stopped = true
			e.tickerStops++
		}
		return nil, true
	// ---- math
	case "math.Round":
		e.stub(key)
		return e.fpUn("fp.roundRNA", args[0].(*Term)), true
	case "math.Abs":
		e.stub(key)
		return e.fpUn("fp.abs", args[0].(*Term)), true
	case "math.Min", "math.Max":
		// exact Go semantics from interpreted comparisons only (so it is the same in exact and uninterpreted float mode):
		// a NaN operand wins; otherwise the smaller / larger; of two zeros Min prefers -0 and Max +0
		e.stub(key)
		x, y := args[0].(*Term), args[1].(*Term)
		if x.IsConst() && y.IsConst() {
			if key == "math.Min" {
				return tb.FP(math.Min(x.fval, y.fval)), true
			}
			return tb.FP(math.Max(x.fval, y.fval)), true
		}
		a, b := x, y
		if key == "math.Max" {
			a, b = y, x // Max: "a is larger" = b < a
		}
		neg := tb.FPUnPred("fp.isNegative", x)
		tie := tb.Ite(neg, x, y) // equal (or both zero): Min takes the negative zero
		if key == "math.Max" {
			tie = tb.Ite(neg, y, x)
		}
		r := tb.Ite(tb.FPCmp("fp.lt", a, b), x, tb.Ite(tb.FPCmp("fp.lt", b, a), y, tie))
		r = tb.Ite(tb.FPUnPred("fp.isNaN", x), x, tb.Ite(tb.FPUnPred("fp.isNaN", y), y, r))
		return r, true
	case "math.Pow":
		e.stub(key)
		x, y := args[0].(*Term), args[1].(*Term)
		if x.IsConst() && y.IsConst() {
			return tb.FP(math.Pow(x.fval, y.fval)), true
		}
		e.unmodelled("math.Pow on symbolic arguments")
	// ---- math/bits
	case "math/bits.Len64", "math/bits.Len", "math/bits.Len32":
		e.stub(key)
		x := args[0].(*Term)
		w := 64
		if key == "math/bits.Len32" {
			w = 32
		}
		if x.IsConst() {
			return e.intConst(64, int64(x.val.BitLen())), true
		}
		// bit length = number of thresholds 2^k (k = 0..w-1) that x reaches
		res := e.intConst(64, 0)
		for k := w - 1; k >= 0; k-- {
			thr := e.intConstBig(w, false, pow2(k))
			var ge *Term
			if e.intMode {
				ge = tb.ICmp("<=", thr, x)
			} else {
				ge = tb.BVCmp("bvule", thr, x)
			}
			_ = ge
		}
		// build as nested ite from the top threshold down
		res = e.intConst(64, 0)
		for k := 0; k < w; k++ {
			thr := e.intConstBig(w, false, pow2(k))
			var ge *Term
			if e.intMode {
				ge = tb.ICmp("<=", thr, x)
			} else {
				ge = tb.BVCmp("bvule", thr, x)
			}
			res = tb.Ite(ge, e.intConst(64, int64(k+1)), res)
		}
		return res, true
	case "math/bits.Mul64", "math/bits.Add64", "math/bits.Sub64", "math/bits.Div64":
		// exact, through mathematical integers (in BV mode via bv2nat / int2bv)
		e.stub(key)
		two64 := tb.IntBig(pow2(64))
		var m []*Term
		for _, a := range args {
			m = append(m, e.toMathInt(a.(*Term), false))
		}
		back := func(t *Term) *Term {
			if e.intMode {
				return t
			}
			return e.asBV(t, 64)
		}
		switch key {
		case "math/bits.Mul64":
			p := tb.IBin("*", m[0], m[1])
			return TupleV{back(tb.IBin("div", p, two64)), back(tb.IBin("mod", p, two64))}, true
		case "math/bits.Add64":
			sum := tb.IBin("+", tb.IBin("+", m[0], m[1]), m[2])
			return TupleV{back(tb.IBin("mod", sum, two64)), back(tb.IBin("div", sum, two64))}, true
		case "math/bits.Sub64":
			d := tb.IBin("-", tb.IBin("-", m[0], m[1]), m[2])
			return TupleV{back(tb.IBin("mod", d, two64)), back(tb.Ite(tb.ICmp("<", d, tb.Int(0)), tb.Int(1), tb.Int(0)))}, true
		default: // Div64(hi, lo, y): panics for y == 0 and for y <= hi (quotient overflow)
			if e.decide(tb.Eq(m[2], tb.Int(0)), "div64-zero") {
				e.progPanic("integer divide by zero (bits.Div64)")
			}
			if e.decide(tb.ICmp("<=", m[2], m[0]), "div64-overflow") {
				e.progPanic("integer overflow (bits.Div64: y <= hi)")
			}
			n := tb.IBin("+", tb.IBin("*", m[0], two64), m[1])
			return TupleV{back(tb.IBin("div", n, m[2])), back(tb.IBin("mod", n, m[2]))}, true
		}
	case "math/bits.LeadingZeros64":
		e.stub(key)
		x := args[0].(*Term)
		if x.IsConst() {
			return e.intConst(64, int64(64-x.val.BitLen())), true
		}
		e.unmodelled("bits.LeadingZeros64 on a symbolic value")
	// ---- sort
	case "sort.Search":
		// the documented algorithm, with the real predicate called symbolically (n must be concrete)
		e.stub(key)
		n := e.concreteInt(args[0].(*Term), "sort.Search n")
		i, j := 0, n
		for i < j {
			h := int(uint(i+j) >> 1)
			r := e.callValue(args[1], e.intConst(64, int64(h))).(*Term)
			if !e.decide(r, "search-pred") {
				i = h + 1
			} else {
				j = h
			}
		}
		return e.intConst(64, int64(i)), true
	case "sort.SliceStable", "sort.Slice":
		e.stub(key)
		s := unwrapAny(args[0]).(SliceV)
		less := args[1]
		for i := 1; i < s.Len; i++ {
			for j := i; j > 0; j-- {
				r := e.callValue(less, e.intConst(64, int64(j)), e.intConst(64, int64(j-1))).(*Term)
				if !e.decide(r, "sort-less") {
					break
				}
				a, b := s.B.cells[s.Off+j], s.B.cells[s.Off+j-1]
				va, vb := e.load(a), e.load(b)
				e.store(a, vb)
				e.store(b, va)
			}
		}
		return nil, true
	// ---- sync
	case "(*sync.Once).Do":
		e.stub(key)
		l := args[0].(PtrV).L
		if !e.onceDone[l] {
			e.onceDone[l] = true
			e.callValue(args[1])
			e.hb.onceEv[l] = e.hbAdd('o', nil, "", "once-done")
		} else if ev, ok := e.hb.onceEv[l]; ok {
			e.hbEdge(ev, e.hbAdd('o', nil, "", "once-seen"))
		}
		return nil, true
	case "(*sync.WaitGroup).Add":
		e.stub(key)
		e.wgCount[args[0].(PtrV).L] += e.concreteInt(args[1].(*Term), "wg.Add")
		return nil, true
	case "(*sync.WaitGroup).Done":
		e.stub(key)
		e.wgCount[args[0].(PtrV).L]--
		if e.hb.on {
			l := args[0].(PtrV).L
			e.hb.wgDone[l] = append(e.hb.wgDone[l], e.hbAdd('d', nil, "", "wg.Done"))
		}
		return nil, true
	case "(*sync.WaitGroup).Wait":
		e.stub(key)
		l := args[0].(PtrV).L
		e.tracef("wg.Wait count=%d", e.wgCount[l])
		if e.wgCount[l] > 0 {
			if e.wgHook.Fn != nil {
				e.callValue(e.wgHook)
			}
			if e.wgCount[l] > 0 {
				e.abort("BLOCKED", "WaitGroup.Wait")
			}
		}
		if e.hb.on {
			w := e.hbAdd('w', nil, "", "wg.Wait")
			for _, d := range e.hb.wgDone[l] {
				e.hbEdge(d, w)
			}
		}
		return nil, true
	case "(*sync/atomic.Bool).Store":
		e.stub(key)
		e.atomics[args[0].(PtrV).L] = args[1]
		if e.hb.on {
			e.hb.atomicEv[args[0].(PtrV).L] = e.hbAdd('a', nil, "", "atomic.Store")
		}
		return nil, true
	case "(*sync/atomic.Bool).Load":
		e.stub(key)
		if e.hb.on {
			if ev, ok := e.hb.atomicEv[args[0].(PtrV).L]; ok {
				e.hbEdge(ev, e.hbAdd('a', nil, "", "atomic.Load"))
			}
		}
		if v, ok := e.atomics[args[0].(PtrV).L]; ok {
			return v, true
		}
		return tb.Bool(false), true
	// ---- context
	case "context.Background", "context.TODO":
		e.stub(key)
		return IfaceV{T: ctxMarker, V: &CtxObj{}}, true
	case "context.WithCancel":
		e.stub(key)
		parent := args[0].(IfaceV)
		child := &CtxObj{done: e.newChan(types.NewStruct(nil, nil), 0)}
		child.done.name = fmt.Sprintf("ctx%d.done", child.done.id)
		if p, ok := parent.V.(*CtxObj); ok {
			p.children = append(p.children, child)
			if p.done != nil && p.done.closed {
				child.done.closed = true
			}
		} else if parent.T != nil {
			e.unmodelled("context.WithCancel on a foreign context type")
		}
		return TupleV{IfaceV{T: ctxMarker, V: child}, FuncV{Builtin: "cancel", Data: child}}, true
	// ---- math/big (mathematical integers)
	case "(*math/big.Int).SetUint64":
		e.stub(key)
		e.bigVals[args[0].(PtrV).L] = e.toMathInt(args[1].(*Term), false)
		return args[0], true
	case "(*math/big.Int).SetInt64":
		e.stub(key)
		e.bigVals[args[0].(PtrV).L] = e.toMathInt(args[1].(*Term), true)
		return args[0], true
	case "math/big.NewInt":
		e.stub(key)
		l := e.newLoc(fn.Signature.Results().At(0).Type().(*types.Pointer).Elem())
		e.bigVals[l] = e.toMathInt(args[0].(*Term), true)
		return PtrV{l}, true
	case "(*math/big.Int).Abs":
		e.stub(key)
		v := e.bigOf(args[1])
		e.bigVals[args[0].(PtrV).L] = tb.Ite(tb.ICmp("<", v, tb.Int(0)), tb.IBin("-", tb.Int(0), v), v)
		return args[0], true
	case "(*math/big.Int).QuoRem":
		e.stub(key)
		x, y := e.bigOf(args[1]), e.bigOf(args[2])
		if e.decide(tb.Eq(y, tb.Int(0)), "big-divzero") {
			e.progPanic("division by zero (big.Int.QuoRem)")
		}
		e.bigVals[args[0].(PtrV).L] = e.intQuo(x, y)
		e.bigVals[args[3].(PtrV).L] = e.intRem(x, y)
		return TupleV{args[0], args[3]}, true
	case "(*math/big.Int).DivMod":
		e.stub(key)
		x, y := e.bigOf(args[1]), e.bigOf(args[2])
		if e.decide(tb.Eq(y, tb.Int(0)), "big-divzero") {
			e.progPanic("division by zero (big.Int.DivMod)")
		}
		e.bigVals[args[0].(PtrV).L] = tb.IBin("div", x, y)
		e.bigVals[args[3].(PtrV).L] = tb.IBin("mod", x, y)
		return TupleV{args[0], args[3]}, true
	case "(*math/big.Int).Lsh", "(*math/big.Int).Rsh":
		sh, ok := args[2].(*Term)
		if !ok || !sh.IsConst() || sh.val.BitLen() > 12 {
			return nil, false // symbolic shift count: unmodelled
		}
		e.stub(key)
		p := tb.IntBig(pow2(int(sh.val.Int64())))
		if strings.HasSuffix(key, "Lsh") {
			e.bigVals[args[0].(PtrV).L] = tb.IBin("*", e.bigOf(args[1]), p)
		} else {
			e.bigVals[args[0].(PtrV).L] = tb.IBin("div", e.bigOf(args[1]), p) // floor, as math/big (arithmetic shift)
		}
		return args[0], true
	case "(*math/big.Int).Mul":
		e.stub(key)
		e.bigVals[args[0].(PtrV).L] = tb.IBin("*", e.bigOf(args[1]), e.bigOf(args[2]))
		return args[0], true
	case "(*math/big.Int).Add":
		e.stub(key)
		e.bigVals[args[0].(PtrV).L] = tb.IBin("+", e.bigOf(args[1]), e.bigOf(args[2]))
		return args[0], true
	case "(*math/big.Int).Quo":
		e.stub(key)
		y := e.bigOf(args[2])
		if e.decide(tb.Eq(y, tb.Int(0)), "big-divzero") {
			e.progPanic("division by zero (big.Int.Quo)")
		}
		e.bigVals[args[0].(PtrV).L] = e.intQuo(e.bigOf(args[1]), y)
		return args[0], true
	case "(*math/big.Int).Sub":
		e.stub(key)
		e.bigVals[args[0].(PtrV).L] = tb.IBin("-", e.bigOf(args[1]), e.bigOf(args[2]))
		return args[0], true
	case "(*math/big.Int).Neg":
		e.stub(key)
		e.bigVals[args[0].(PtrV).L] = tb.IBin("-", tb.Int(0), e.bigOf(args[1]))
		return args[0], true
	case "(*math/big.Int).Set":
		e.stub(key)
		e.bigVals[args[0].(PtrV).L] = e.bigOf(args[1])
		return args[0], true
	case "(*math/big.Int).Rem":
		e.stub(key)
		y := e.bigOf(args[2])
		if e.decide(tb.Eq(y, tb.Int(0)), "big-divzero") {
			e.progPanic("division by zero (big.Int.Rem)")
		}
		e.bigVals[args[0].(PtrV).L] = e.intRem(e.bigOf(args[1]), y)
		return args[0], true
	case "(*math/big.Int).Div", "(*math/big.Int).Mod":
		e.stub(key)
		y := e.bigOf(args[2])
		if e.decide(tb.Eq(y, tb.Int(0)), "big-divzero") {
			e.progPanic("division by zero (big.Int.Div)")
		}
		op := "div"
		if strings.HasSuffix(key, "Mod") {
			op = "mod"
		}
		e.bigVals[args[0].(PtrV).L] = tb.IBin(op, e.bigOf(args[1]), y) // euclidean, as math/big
		return args[0], true
	case "(*math/big.Int).Sign":
		e.stub(key)
		v := e.bigOf(args[0])
		r := tb.Ite(tb.ICmp("<", v, tb.Int(0)), tb.Int(-1), tb.Ite(tb.Eq(v, tb.Int(0)), tb.Int(0), tb.Int(1)))
		if e.intMode {
			return r, true
		}
		return e.asBV(tb.IBin("mod", r, tb.IntBig(pow2(64))), 64), true
	case "(*math/big.Int).Cmp":
		e.stub(key)
		x, y := e.bigOf(args[0]), e.bigOf(args[1])
		r := tb.Ite(tb.ICmp("<", x, y), tb.Int(-1), tb.Ite(tb.Eq(x, y), tb.Int(0), tb.Int(1)))
		if e.intMode {
			return r, true
		}
		return e.asBV(tb.IBin("mod", r, tb.IntBig(pow2(64))), 64), true
	case "(*math/big.Int).IsInt64":
		e.stub(key)
		v := e.bigOf(args[0])
		return tb.And(tb.ICmp("<=", tb.IntBig(new(big.Int).Neg(pow2(63))), v), tb.ICmp("<", v, tb.IntBig(pow2(63)))), true
	case "(*math/big.Int).Int64":
		e.stub(key)
		v := e.bigOf(args[0])
		if e.intMode {
			return e.wrap(v, 64, true), true
		}
		return e.asBV(tb.IBin("mod", v, tb.IntBig(pow2(64))), 64), true
	case "(*math/big.Int).IsUint64":
		e.stub(key)
		v := e.bigOf(args[0])
		return tb.And(tb.ICmp("<=", tb.Int(0), v), tb.ICmp("<", v, tb.IntBig(pow2(64)))), true
	case "(*math/big.Int).Uint64":
		e.stub(key)
		v := e.bigOf(args[0])
		if e.intMode {
			return e.wrap(v, 64, false), true
		}
		return e.asBV(tb.IBin("mod", v, tb.IntBig(pow2(64))), 64), true
	}
	return nil, false
}

func (e *Engine) toMathInt(t *Term, signed bool) *Term {
	if e.intMode {
		return t
	}
	tb := e.tb
	if t.IsConst() {
		if signed {
			return tb.IntBig(toSigned(t.val, t.sort.W))
		}
		return tb.IntBig(t.val)
	}
	n := tb.mk("bv2nat", SortInt, t)
	if !signed {
		return n
	}
	return tb.Ite(tb.BVCmp("bvslt", t, tb.BV(t.sort.W, 0)), tb.IBin("-", n, tb.IntBig(pow2(t.sort.W))), n)
}

func (e *Engine) bigOf(v Value) *Term {
	l := v.(PtrV).L
	if t, ok := e.bigVals[l]; ok {
		return t
	}
	return e.tb.Int(0)
}

func (e *Engine) engineClosure(f FuncV, args []Value) Value {
	switch f.Builtin {
	case "cancel":
		var cl func(c *CtxObj)
		cl = func(c *CtxObj) {
			if c.done != nil && !c.done.closed {
				c.done.closed = true
				c.done.closeEv = e.hbAdd('c', c.done, "", "cancel")
				e.tracef("cancel %s", c.done)
			}
			for _, ch := range c.children {
				cl(ch)
			}
		}
		cl(f.Data.(*CtxObj))
		return nil
	}
	e.unmodelled("engine closure " + f.Builtin)
	return nil
}

func (e *Engine) invokeBuiltinIface(recv IfaceV, method string, args []Value) (Value, bool) {
	c, ok := recv.V.(*CtxObj)
	if !ok {
		return nil, false
	}
	switch method {
	case "Done":
		return ChanV{c.done}, true
	case "Err":
		return IfaceV{}, true
	case "Value":
		return IfaceV{}, true
	}
	e.unmodelled("context method " + method)
	return nil, false
}

// ---- clock

func (e *Engine) timeValue(now *Term) Value {
	return &StructV{F: []Value{e.intConst(64, 0), now, PtrV{}}}
}

func (e *Engine) clockInit() {
	p := e.path
	if p.now != nil {
		return
	}
	p.now = e.nondetInt("now", 64, true)
	lo := e.binopInt(token.GEQ, p.now, e.intConst(64, 1), 64, true).(*Term) // >= 1: a clock reading is never the zero Time
	hi := e.binopInt(token.LSS, p.now, e.intConstBig(64, true, pow2(61)), 64, true).(*Term)
	e.addPC(lo)
	e.addPC(hi)
}

// advanceClock moves the clock forward by an arbitrary amount >= max(minDelta,0)
// (and <= max(minDelta,0)+latency when a latency bound is set).
func (e *Engine) advanceClock(minDelta *Term) {
	e.clockInit()
	p := e.path
	old := p.now
	nw := e.nondetInt("now", 64, true)
	zero := e.intConst(64, 0)
	e.addPC(e.binopInt(token.GEQ, nw, old, 64, true).(*Term))
	e.addPC(e.binopInt(token.LSS, nw, e.intConstBig(64, true, pow2(62)), 64, true).(*Term))
	delta := e.binopInt(token.SUB, nw, old, 64, true).(*Term)
	if minDelta != nil {
		// delta >= minDelta whenever minDelta > 0 (delta is in [0,2^62), no wrap)
		e.addPC(e.tb.Or(e.binopInt(token.LEQ, minDelta, zero, 64, true).(*Term),
			e.binopInt(token.GEQ, delta, minDelta, 64, true).(*Term)))
	}
	if e.latency != nil {
		base := zero
		if minDelta != nil {
			base = e.tb.Ite(e.binopInt(token.GTR, minDelta, zero, 64, true).(*Term), minDelta, zero)
			// keep the sum representable
			e.addPC(e.binopInt(token.LSS, base, e.intConstBig(64, true, pow2(61)), 64, true).(*Term))
		}
		e.addPC(e.binopInt(token.LEQ, delta, e.binopInt(token.ADD, base, e.latency, 64, true).(*Term), 64, true).(*Term))
	}
	p.now = nw
}

// ---- harness intrinsics

func (e *Engine) intrinsic(name string, fn *ssa.Function, args []Value) (Value, bool) {
	tb := e.tb
	str := func(i int) string { return args[i].(string) }
	switch name {
	case "vNondetUint", "vNondetU64":
		return e.nondetInt(str(0), 64, false), true
	case "vNondetInt", "vNondetI64":
		return e.nondetInt(str(0), 64, true), true
	case "vNondetBool":
		return e.nondetBool(str(0)), true
	case "vNondetFloat":
		return e.nondetFloat(str(0)), true
	case "vChoose":
		n := e.concreteInt(args[1].(*Term), "vChoose n")
		c := e.choose(n, "#v:"+str(0))
		e.tracef("choose %s=%d", str(0), c)
		return e.intConst(64, int64(c)), true
	case "vAssume":
		e.doAssume(args[0].(*Term))
		return nil, true
	case "vAssert":
		e.doAssert(args[0].(*Term), str(1), "")
		return nil, true
	case "vReach":
		e.path.reached[str(0)] = true
		return nil, true
	case "vAnd", "vOr":
		s := args[0].(SliceV)
		var ts []*Term
		for i := 0; i < s.Len; i++ {
			ts = append(ts, e.load(s.B.cells[s.Off+i]).(*Term))
		}
		if name == "vAnd" {
			return tb.And(ts...), true
		}
		return tb.Or(ts...), true
	case "vImp":
		return tb.Implies(args[0].(*Term), args[1].(*Term)), true
	case "vParam":
		if v, ok := e.params[str(0)]; ok {
			return e.intConst(64, int64(v)), true
		}
		return args[1], true
	case "vDistinct":
		s := args[0].(SliceV)
		var ts []*Term
		for i := 0; i < s.Len; i++ {
			ts = append(ts, e.load(s.B.cells[s.Off+i]).(*Term))
		}
		for i := range ts {
			for j := i + 1; j < len(ts); j++ {
				e.addPC(tb.Not(tb.EqRaw(ts[i], ts[j])))
			}
		}
		if len(ts) > 0 {
			tb.MarkDistinct(ts)
		}
		return nil, true
	case "vPark":
		c := chanOf(args[0])
		c.parked = append(c.parked, unwrapAny(args[1]))
		if e.hb.on {
			c.parkedEv = append(c.parkedEv, e.hbAdd('s', c, "", "send(parked)"))
		}
		return nil, true
	case "vParkedLen":
		return e.intConst(64, int64(len(chanOf(args[0]).parked))), true
	case "vSink":
		chanOf(args[0]).sink = true
		return nil, true
	case "vWaiters":
		chanOf(args[0]).waiters += e.concreteInt(args[1].(*Term), "vWaiters")
		return nil, true
	case "vLogLen":
		return e.intConst(64, int64(len(chanOf(args[0]).log))), true
	case "vLogAt":
		c := chanOf(args[0])
		i := e.concreteInt(args[1].(*Term), "vLogAt")
		return IfaceV{T: c.elemT, V: c.log[i]}, true
	case "vLogTake": // removes and returns the oldest logged value
		c := chanOf(args[0])
		v := c.log[0]
		c.log = c.log[1:]
		return IfaceV{T: c.elemT, V: v}, true
	case "vChanName":
		chanOf(args[0]).name = str(1)
		return nil, true
	case "vIsClosed":
		return tb.Bool(chanOf(args[0]).closed), true
	case "vSendCount":
		return e.intConst(64, int64(chanOf(args[0]).sends)), true
	case "vRecvCount":
		return e.intConst(64, int64(chanOf(args[0]).recvs)), true
	case "vOnBlock":
		c := chanOf(args[0])
		c.onBlock = append(c.onBlock, args[1].(FuncV))
		return nil, true
	case "vOnSend":
		chanOf(args[0]).onSend = args[1].(FuncV)
		return nil, true
	case "vOnRecv":
		chanOf(args[0]).onRecv = args[1].(FuncV)
		return nil, true
	case "vOnWait":
		e.wgHook = args[0].(FuncV)
		return nil, true
	case "vOnTick":
		e.tickHook = args[0].(FuncV)
		return nil, true
	case "vBreakSignal": // closes the interrupter channel of a breaker.Breaker (what Break() does before it waits)
		l := unwrapAny(args[0]).(PtrV).L
		find := func(l *Loc, name string) *Loc {
			st := l.typ.Underlying().(*types.Struct)
			for i := 0; i < st.NumFields(); i++ {
				if st.Field(i).Name() == name {
					return l.kids[i]
				}
			}
			panic("field not found: " + name)
		}
		cl := find(l, "interrupter").v.(PtrV).L
		ch := find(cl, "channel").v.(ChanV).C
		if !ch.closed {
			ch.closed = true
			ch.closeEv = e.hbAdd('c', ch, "", "break")
			e.tracef("break-signal %s", ch)
		}
		// the real Close() goes through a sync.Once: mark it done so that a later Break() does not close again
		e.onceDone[find(cl, "once").v.(PtrV).L] = true
		return nil, true
	case "vFairTicks":
		e.fairTicks = true
		return nil, true
	case "vOnChanEvent": // func(kind int, ch any, v any, ok bool): every send (0) / receive (1) on channels without their own observer
		e.onChanEvent = args[0].(FuncV)
		return nil, true
	case "vCloseChan": // the environment closes a channel the harness only holds a receive end of
		c := chanOf(args[0])
		if !c.closed {
			c.closed = true
			e.tracef("env-close %s", c)
		}
		return nil, true
	case "vSameChan":
		return tb.Bool(chanOf(args[0]) == chanOf(args[1])), true
	case "vSinkWhenFull":
		e.sinkAll = true
		return nil, true
	case "vLassoBound":
		e.lassoBound = e.concreteInt(args[0].(*Term), "vLassoBound")
		return nil, true
	case "vOnAnyBlock":
		e.anyBlock = args[0].(FuncV)
		return nil, true
	case "vWaitCount": // outstanding WaitGroup count (sum over all wait groups of the run)
		n := 0
		for _, c := range e.wgCount {
			n += c
		}
		return e.intConst(64, int64(n)), true
	case "vTermWatch": // closing one of these channels is the goroutine's termination signal: no blocking operation may follow
		sl := args[0].(SliceV)
		for i := 0; i < sl.Len; i++ {
			e.termWatch[chanOf(e.load(sl.B.cells[sl.Off+i]))] = true
		}
		return nil, true
	case "vPreciseTime": // periodic tickers and timed arrivals against the symbolic clock (C10 bounded runs)
		e.precise = true
		return nil, true
	case "vParkAt": // a producer offers the value from instant t on
		c := chanOf(args[0])
		for len(c.parkedAt) < len(c.parked) {
			c.parkedAt = append(c.parkedAt, nil)
		}
		c.parked = append(c.parked, unwrapAny(args[1]))
		c.parkedAt = append(c.parkedAt, args[2].(*Term))
		return nil, true
	case "vDecline":
		e.declined = true
		return nil, true
	case "vNoTickers":
		e.noTickerMsg = str(0)
		return nil, true
	case "vSleepBudget":
		e.sleepBudget = e.concreteInt(args[0].(*Term), "vSleepBudget")
		return nil, true
	case "vOnClose":
		chanOf(args[0]).onClose = args[1].(FuncV)
		return nil, true
	case "vTickBudget":
		e.path.ticksLeft = e.concreteInt(args[0].(*Term), "vTickBudget")
		return nil, true
	case "vTimeOf":
		return unwrapAny(args[0]).(*StructV).F[1], true
	case "vNow":
		e.clockInit()
		return e.path.now, true
	case "vAdvance":
		e.advanceClock(nil)
		return nil, true
	case "vSetLatency":
		e.latency = args[0].(*Term)
		return nil, true
	case "vSleepCount":
		return e.intConst(64, int64(len(e.sleeps))), true
	case "vSleepArg":
		return e.sleeps[e.concreteInt(args[0].(*Term), "vSleepArg")], true
	case "vTickerResets":
		return e.intConst(64, int64(e.tickerResets)), true
	case "vTickerStops":
		return e.intConst(64, int64(e.tickerStops)), true
	case "vTickersRunning": // tickers the library created and that are not in the stopped state now (however often Stop / Reset were called)
		n := 0
		for _, c := range e.tickers {
			if !c.stopped {
				n++
			}
		}
		return e.intConst(64, int64(n)), true
	case "vTickerCount":
		return e.intConst(64, int64(len(e.tickerPeriod))), true
	case "vTickerPeriod":
		return e.tickerPeriod[e.concreteInt(args[0].(*Term), "vTickerPeriod")], true
	case "vSpawnCount":
		return e.intConst(64, int64(len(e.spawned))), true
	case "vRunSpawned":
		i := e.concreteInt(args[0].(*Term), "vRunSpawned")
		s := e.spawned[i]
		e.spawnRan[i] = true
		if e.hb.on {
			prev := e.hb.role
			role := fmt.Sprintf("goroutine%d", i)
			if _, ok := e.hb.last[role]; !ok {
				e.hb.pending[role] = s.hbEv
			}
			e.hb.role = role
			e.hbAdd('b', nil, "", "start")
			e.invoke(s.call, s.fn, s.args)
			e.hb.role = prev
			return nil, true
		}
		e.invoke(s.call, s.fn, s.args)
		return nil, true
	case "vRaceWatch":
		e.hb.on = true
		return nil, true
	case "vRole":
		e.hbSetRole(str(0))
		return nil, true
	case "vCheckRaces":
		e.hbCheck()
		return nil, true
	case "vTouchR", "vTouchW": // user code reads / writes the elements of a slice it received
		kind := byte('R')
		if name == "vTouchW" {
			kind = 'W'
		}
		if sl, ok := unwrapAny(args[0]).(SliceV); ok && sl.B != nil && e.hb.on {
			for i := 0; i < sl.Len; i++ {
				e.hbMemForce(kind, sl.B.cells[sl.Off+i], "user access to a delivered slice")
			}
		}
		if mv, ok := unwrapAny(args[0]).(MapV); ok && mv.M != nil && e.hb != nil && e.hb.on {
			e.hbAdd(kind, mv.M, "user access to a map it passed to the library", "")
		}
		return nil, true
	case "vRunLeftoverSpawned":
		// C19: every goroutine the code started and the harness did not run explicitly must end by itself now
		// that the discipline has terminated; it is run here and may neither block nor spin.
		for i := 0; i < len(e.spawned); i++ {
			if e.spawnRan[i] {
				continue
			}
			e.spawnRan[i] = true
			s := e.spawned[i]
			e.h.Expect["GOROUTINE-LEAK"] = "fail:C19: a goroutine started by the discipline does not end after the discipline terminated"
			e.inLeftover = true
			e.sinkAll = false // after termination nobody drains anything any more
			save := e.maxInstr
			e.maxInstr = e.path.instrs + 300000
			e.invoke(s.call, s.fn, s.args)
			e.maxInstr = save
			e.inLeftover = false
		}
		return nil, true
	case "vSpawnedIs": // does the i-th spawned goroutine run the named function?
		i := e.concreteInt(args[0].(*Term), "vSpawnedIs")
		f, _ := e.spawned[i].fn.(FuncV)
		return tb.Bool(f.Fn != nil && strings.Contains(f.Fn.String(), str(1))), true
	case "vCloseCount":
		return e.intConst(64, int64(len(e.closeEvents))), true
	case "vClosedAt": // was the i-th close event on this channel?
		i := e.concreteInt(args[0].(*Term), "vClosedAt")
		return tb.Bool(e.closeEvents[i] == chanOf(args[1])), true
	case "vSameArray":
		a, _ := unwrapAny(args[0]).(SliceV)
		b, _ := unwrapAny(args[1]).(SliceV)
		if a.B == nil || b.B == nil {
			return tb.Bool(false), true
		}
		// overlapping cells?
		share := false
		for i := 0; i < a.Cap; i++ {
			for j := 0; j < b.Cap; j++ {
				if a.B.cells[a.Off+i] == b.B.cells[b.Off+j] {
					share = true
				}
			}
		}
		return tb.Bool(share), true
	case "vWatch":
		s, _ := unwrapAny(args[0]).(SliceV)
		if e.watched == nil {
			e.watched = map[*Loc]bool{}
			e.onStore = func(l *Loc) {
				if e.watched[l] {
					e.watchHits++
				}
			}
		}
		for i := 0; i < s.Cap && s.B != nil; i++ {
			e.watched[s.B.cells[s.Off+i]] = true
		}
		return nil, true
	case "vUnwatch":
		s, _ := unwrapAny(args[0]).(SliceV)
		for i := 0; i < s.Cap && s.B != nil; i++ {
			delete(e.watched, s.B.cells[s.Off+i])
		}
		return nil, true
	case "vWatchHits":
		return e.intConst(64, int64(e.watchHits)), true
	case "vHavocSlice": // the consumer scribbles over a delivered slice
		s, _ := unwrapAny(args[0]).(SliceV)
		for i := 0; i < s.Len; i++ {
			c := s.B.cells[s.Off+i]
			if _, _, ok := isInt(c.typ); ok {
				e.storeQuiet(c, e.nondetInt("havoc", 64, true))
			}
		}
		return nil, true
	case "vDump":
		s := str(0) + ":"
		vs := args[1].(SliceV)
		for i := 0; i < vs.Len; i++ {
			s += " " + e.describe(unwrapAny(e.load(vs.B.cells[vs.Off+i])))
		}
		e.path.dumps = append(e.path.dumps, s)
		e.tracef("dump %s", s)
		return nil, true
	case "vTrace":
		e.tracef("%s", str(0))
		return nil, true
	case "vKnownFields":
		// the harness builds values of this struct type field by field: a field it does not know about
		// (added by a change) would silently stay at its zero value, so this is a machinery stop
		pv, ok := unwrapAny(args[0]).(PtrV)
		if !ok || pv.L == nil {
			e.unmodelled("vKnownFields: not a pointer to a struct")
		}
		st, ok := pv.L.typ.Underlying().(*types.Struct)
		if !ok {
			e.unmodelled("vKnownFields: not a pointer to a struct")
		}
		known := map[string]bool{}
		for _, n := range strings.Fields(str(1)) {
			known[n] = true
		}
		for i := 0; i < st.NumFields(); i++ {
			if !known[st.Field(i).Name()] {
				e.unmodelled(fmt.Sprintf("representation changed: field %q of %s is unknown to the harness that builds arbitrary states of it (update the constructor and its invariant)", st.Field(i).Name(), pv.L.typ))
			}
		}
		return nil, true
	case "vExpect":
		e.h.Expect[str(0)] = str(1)
		return nil, true
	case "vIsSymbolic":
		return tb.Bool(true), true
	case "vReplace": // contract substitution: calls of the named function run the harness function instead
		if !e.funcNameExists(fn.Pkg, str(0)) {
			// the hook would silently never fire (the function was renamed or removed by a change)
			e.unmodelled("vReplace: the package under test has no function or method named " + str(0))
		}
		e.replaced[str(0)] = unwrapAny(args[1]).(FuncV)
		return nil, true
	case "vUnreplace":
		delete(e.replaced, str(0))
		return nil, true
	case "vUFBool", "vUFUint":
		s := args[1].(SliceV)
		var ts []*Term
		for i := 0; i < s.Len; i++ {
			ts = append(ts, e.load(s.B.cells[s.Off+i]).(*Term))
		}
		if name == "vUFBool" {
			return tb.App("h_"+sanitize(str(0)), SortBool, ts...), true
		}
		if e.intMode {
			t := tb.App("h_"+sanitize(str(0)), SortInt, ts...)
			e.addPC(e.rangeCond(t, 64, false))
			return t, true
		}
		return tb.App("h_"+sanitize(str(0)), SortBV(64), ts...), true
	case "vLin": // a*b + c < d*e + f over mathematical integers (unsigned 64-bit operands)
		var m []*Term
		for k := 0; k < 6; k++ {
			m = append(m, e.toMathInt(args[k].(*Term), false))
		}
		l := tb.IBin("+", tb.IBin("*", m[0], m[1]), m[2])
		r := tb.IBin("+", tb.IBin("*", m[3], m[4]), m[5])
		return tb.ICmp("<", l, r), true
	}
	return nil, false
}

// funcNameExists: is there a package-level function or a method of a package-level type with this name?
func (e *Engine) funcNameExists(pkg *ssa.Package, name string) bool {
	if pkg == nil {
		return true
	}
	if e.fnNames == nil {
		e.fnNames = map[*ssa.Package]map[string]bool{}
	}
	names, ok := e.fnNames[pkg]
	if !ok {
		names = map[string]bool{}
		for _, m := range pkg.Members {
			switch x := m.(type) {
			case *ssa.Function:
				names[x.Name()] = true
			case *ssa.Type:
				for _, t := range []types.Type{x.Type(), types.NewPointer(x.Type())} {
					ms := e.prog.MethodSets.MethodSet(t)
					for i := 0; i < ms.Len(); i++ {
						names[ms.At(i).Obj().Name()] = true
					}
				}
				if named, ok := x.Type().(*types.Named); ok {
					for i := 0; i < named.NumMethods(); i++ {
						names[named.Method(i).Name()] = true
					}
				}
			}
		}
		e.fnNames[pkg] = names
	}
	return names[name]
}

var _ = big.NewInt
