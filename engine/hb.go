package main

// Happens-before checking over recorded traces (C20).
//
// While race watching is on, the engine records, per ROLE (constructor, scheduling
// goroutine, handlers, consumers, control calls ...), every memory access made by
// LIBRARY code (loads / stores of heap locations, map reads / writes) and every
// synchronisation event (channel send / receive / close, go, sync.Once,
// atomics, WaitGroup). The harness runs the roles' code interleaved in one thread;
// nothing but the recorded synchronisation edges orders events of different roles.
// vCheckRaces asks the solver whether two linear extensions of the happens-before
// order exist that disagree on some conflicting pair (same location, different
// roles, at least one write) - i.e. whether the pair is unordered.

import (
	"fmt"
	"sort"
	"strings"

	"golang.org/x/tools/go/ssa"
)

type hbEvent struct {
	id   int
	role string
	kind byte // 'R','W' memory; 's','r','c' channel; 'g' go; 'b' begin; 'o' once; 'a' atomic; 'd' wg.Done; 'w' wg.Wait
	loc  interface{}
	pos  string
	desc string
}

type hbState struct {
	on       bool
	role     string
	events   []hbEvent
	edges    [][2]int
	last     map[string]int
	pending  map[string]int // role -> event that must precede the role's first event
	onceEv   map[*Loc]int
	atomicEv map[*Loc]int
	wgDone   map[*Loc][]int
	fnHarn   map[*ssa.Function]bool
	fnStack  []bool // is the function at this depth harness code?
}

func (e *Engine) hbReset() {
	e.hb = &hbState{role: "main", last: map[string]int{}, pending: map[string]int{}, onceEv: map[*Loc]int{},
		atomicEv: map[*Loc]int{}, wgDone: map[*Loc][]int{}, fnHarn: e.hbFnCache()}
}

func (e *Engine) hbFnCache() map[*ssa.Function]bool {
	if e.hbCache == nil {
		e.hbCache = map[*ssa.Function]bool{}
	}
	return e.hbCache
}

func (e *Engine) hbIsHarness(fn *ssa.Function, parent bool) bool {
	if v, ok := e.hb.fnHarn[fn]; ok {
		return v
	}
	f := fn
	for f != nil {
		o := f
		if f.Origin() != nil {
			o = f.Origin()
		}
		if o.Pos().IsValid() {
			file := e.prog.Fset.Position(o.Pos()).Filename
			v := strings.Contains(file, "zz_verif_")
			e.hb.fnHarn[fn] = v
			return v
		}
		f = f.Parent()
	}
	return parent // synthetic wrapper: same as its caller
}

func (e *Engine) hbPush(fn *ssa.Function) {
	parent := true
	if n := len(e.hb.fnStack); n > 0 {
		parent = e.hb.fnStack[n-1]
	}
	e.hb.fnStack = append(e.hb.fnStack, e.hbIsHarness(fn, parent))
}

func (e *Engine) hbPop() { e.hb.fnStack = e.hb.fnStack[:len(e.hb.fnStack)-1] }

func (e *Engine) hbInLibrary() bool {
	n := len(e.hb.fnStack)
	return n > 0 && !e.hb.fnStack[n-1]
}

func (e *Engine) hbAdd(kind byte, loc interface{}, pos, desc string) int {
	h := e.hb
	if h == nil || !h.on {
		return -1
	}
	id := len(h.events)
	h.events = append(h.events, hbEvent{id: id, role: h.role, kind: kind, loc: loc, pos: pos, desc: desc})
	if last, ok := h.last[h.role]; ok {
		h.edges = append(h.edges, [2]int{last, id})
	} else if p, ok := h.pending[h.role]; ok && p >= 0 {
		h.edges = append(h.edges, [2]int{p, id})
	}
	h.last[h.role] = id
	return id
}

func (e *Engine) hbEdge(from, to int) {
	if e.hb != nil && e.hb.on && from >= 0 && to >= 0 {
		e.hb.edges = append(e.hb.edges, [2]int{from, to})
	}
}

// memory accesses by library code
func (e *Engine) hbMem(kind byte, l *Loc, pos string) {
	if e.hb == nil || !e.hb.on || l == nil || !e.hbInLibrary() {
		return
	}
	e.hbMemForce(kind, l, pos)
}

func (e *Engine) hbMemForce(kind byte, l *Loc, pos string) {
	if len(l.kids) > 0 {
		for _, k := range l.kids {
			e.hbMemForce(kind, k, pos)
		}
		return
	}
	e.hbAdd(kind, l, pos, "")
}

func (e *Engine) hbMap(kind byte, m *MapObj, pos string) {
	if e.hb == nil || !e.hb.on || m == nil || !e.hbInLibrary() {
		return
	}
	e.hbAdd(kind, m, pos, "")
}

func (e *Engine) hbSetRole(name string) {
	h := e.hb
	if h == nil {
		return
	}
	if _, known := h.last[name]; !known {
		if _, p := h.pending[name]; !p {
			// the role is declared (its goroutine started) now: it is ordered after the declaring
			// role's latest event - or after nothing, if the declaring role has done nothing yet.
			// Fixed at the FIRST mention, so later switches to the role add no order.
			if last, ok := h.last[h.role]; ok {
				h.pending[name] = last
			} else {
				h.pending[name] = -1
			}
		}
	}
	h.role = name
}

func locName(l interface{}) string {
	switch x := l.(type) {
	case *Loc:
		if x.name != "" {
			return x.name
		}
		return fmt.Sprintf("obj%d(%s)", x.id, x.typ)
	case *MapObj:
		return fmt.Sprintf("map%d", x.id)
	}
	return "?"
}

// hbCheck decides, with the solver, whether some conflicting pair is unordered.
func (e *Engine) hbCheck() {
	h := e.hb
	if h == nil || !h.on || !e.relevantMsg("C20: no data race") {
		return
	}
	tb := e.tb
	// conflicting pairs
	byLoc := map[interface{}][]int{}
	for _, ev := range h.events {
		if ev.kind == 'R' || ev.kind == 'W' {
			byLoc[ev.loc] = append(byLoc[ev.loc], ev.id)
		}
	}
	type pair struct{ a, b int }
	var pairs []pair
	seen := map[string]bool{}
	for _, ids := range byLoc {
		roles := map[string]bool{}
		for _, i := range ids {
			roles[h.events[i].role] = true
		}
		if len(roles) < 2 {
			continue
		}
		for x := 0; x < len(ids); x++ {
			for y := x + 1; y < len(ids); y++ {
				a, b := h.events[ids[x]], h.events[ids[y]]
				if a.role == b.role || (a.kind != 'W' && b.kind != 'W') {
					continue
				}
				pairs = append(pairs, pair{a.id, b.id})
			}
		}
	}
	st := e.assertStat("C20: no data race: every pair of conflicting accesses by different goroutines is ordered by happens-before", "")
	e.h.Stubs["hb:events"] += len(h.events)
	e.h.Stubs["hb:edges"] += len(h.edges)
	e.h.Stubs["hb:conflicting-pairs"] += len(pairs)
	e.tracef("hb-check: %d events, %d edges, %d conflicting pairs", len(h.events), len(h.edges), len(pairs))
	if len(pairs) == 0 {
		st.Trivial++
		return
	}
	// keep only relevant events: endpoints of edges that cross roles, and conflict events; program order is re-linked
	relevant := map[int]bool{}
	for _, p := range pairs {
		relevant[p.a], relevant[p.b] = true, true
	}
	for _, ed := range h.edges {
		if h.events[ed[0]].role != h.events[ed[1]].role {
			relevant[ed[0]], relevant[ed[1]] = true, true
		}
	}
	var ids []int
	for i := range relevant {
		ids = append(ids, i)
	}
	sort.Ints(ids)
	t1 := map[int]*Term{}
	t2 := map[int]*Term{}
	for _, i := range ids {
		t1[i] = tb.Var(fmt.Sprintf("hbA!%d", i), SortInt)
		t2[i] = tb.Var(fmt.Sprintf("hbB!%d", i), SortInt)
	}
	var cons []*Term
	lastRel := map[string]int{}
	for _, i := range ids { // program order among retained events (ids are in execution order)
		r := h.events[i].role
		if p, ok := lastRel[r]; ok {
			cons = append(cons, tb.ICmp("<", t1[p], t1[i]), tb.ICmp("<", t2[p], t2[i]))
		}
		lastRel[r] = i
	}
	for _, ed := range h.edges {
		if h.events[ed[0]].role != h.events[ed[1]].role {
			cons = append(cons, tb.ICmp("<", t1[ed[0]], t1[ed[1]]), tb.ICmp("<", t2[ed[0]], t2[ed[1]]))
		}
	}
	const chunk = 400
	for off := 0; off < len(pairs); off += chunk {
		end := off + chunk
		if end > len(pairs) {
			end = len(pairs)
		}
		var disj []*Term
		for _, p := range pairs[off:end] {
			disj = append(disj, tb.And(tb.ICmp("<", t1[p.a], t1[p.b]), tb.ICmp("<", t2[p.b], t2[p.a])))
		}
		q := tb.And(append(append([]*Term{}, cons...), tb.Or(disj...))...)
		res, model := e.solver.Check(nil, q, true)
		switch res {
		case "unsat":
			st.Unsat++
		case "unknown":
			st.Unknown++
		case "sat":
			st.Sat++
			// find a witnessing pair
			val := func(t *Term) int64 {
				if mv, ok := model[t.name]; ok && mv.Big != nil {
					return mv.Big.Int64()
				}
				return 0
			}
			for _, p := range pairs[off:end] {
				if val(t1[p.a]) < val(t1[p.b]) && val(t2[p.b]) < val(t2[p.a]) {
					a, b := h.events[p.a], h.events[p.b]
					key := a.pos + "|" + b.pos
					if seen[key] {
						continue
					}
					seen[key] = true
					msg := "C20: no data race: every pair of conflicting accesses by different goroutines is ordered by happens-before"
					det := fmt.Sprintf("unordered: %s %c at %s  vs  %s %c at %s  on %s", a.role, a.kind, a.pos, b.role, b.kind, b.pos, locName(a.loc))
					nf := 0
					for _, f := range e.h.Fails {
						if f.Msg == msg {
							nf++
						}
					}
					if nf < 3 {
						e.h.Fails = append(e.h.Fails, &AssertFail{Harness: e.h.Name, Msg: msg, Pos: det, Model: map[string]string{},
							Choices: e.path.choices(), VChoices: e.path.vchoices(), Params: e.params,
							Trace: append(append([]string{}, e.path.trace...), det)})
					}
					break
				}
			}
			return
		}
	}
}
