package main

import (
	"encoding/json"
	"flag"
	"fmt"
	"go/ast"
	"os"
	"path/filepath"
	"regexp"
	"sort"
	"strconv"
	"strings"
	"sync"
	"time"

	"golang.org/x/tools/go/packages"
	"golang.org/x/tools/go/ssa"
	"golang.org/x/tools/go/ssa/ssautil"
)

type Config struct {
	Mode    string // bv | int
	FP      string // exact | uf
	Solver  string
	Loop    int
	Ticks   int
	Timeout int
	MaxPath int
	Prop    string // property being checked: assertions labelled for other properties only are skipped
}

func parseDirectives(fn *ssa.Function, cfg *Config) {
	fd, ok := fn.Syntax().(*ast.FuncDecl)
	if !ok || fd.Doc == nil {
		return
	}
	for _, c := range fd.Doc.List {
		t := strings.TrimSpace(strings.TrimPrefix(c.Text, "//"))
		if !strings.HasPrefix(t, "gosym:") {
			continue
		}
		for _, kv := range strings.Fields(t[6:]) {
			p := strings.SplitN(kv, "=", 2)
			if len(p) != 2 {
				continue
			}
			switch p[0] {
			case "mode":
				cfg.Mode = p[1]
			case "fp":
				cfg.FP = p[1]
			case "solver":
				cfg.Solver = p[1]
			case "loop":
				cfg.Loop, _ = strconv.Atoi(p[1])
			case "timeout":
				cfg.Timeout, _ = strconv.Atoi(p[1])
			case "maxpaths":
				cfg.MaxPath, _ = strconv.Atoi(p[1])
			}
		}
	}
}

var droppedHarnessFiles []string

type job struct {
	fn     *ssa.Function
	params map[string]int
}

func loadProgram(dir, pkgPat, overlayDir, rtTemplate string) (*ssa.Program, *ssa.Package, error) {
	overlay := map[string][]byte{}
	absPkgDir := filepath.Join(dir, pkgPat)
	pkgName := ""
	files, _ := filepath.Glob(filepath.Join(overlayDir, "*.go"))
	sort.Strings(files)
	for _, f := range files {
		src, err := os.ReadFile(f)
		if err != nil {
			return nil, nil, err
		}
		if pkgName == "" {
			m := regexp.MustCompile(`(?m)^package\s+(\w+)`).FindSubmatch(src)
			if m != nil {
				pkgName = string(m[1])
			}
		}
		overlay[filepath.Join(absPkgDir, "zz_verif_"+filepath.Base(f))] = src
	}
	if pkgName == "" {
		return nil, nil, fmt.Errorf("no harness files in %s", overlayDir)
	}
	rt, err := os.ReadFile(rtTemplate)
	if err != nil {
		return nil, nil, err
	}
	overlay[filepath.Join(absPkgDir, "zz_verif_rt.go")] = []byte(strings.Replace(string(rt), "package PKG", "package "+pkgName, 1))
	cfg := &packages.Config{
		Mode: packages.NeedName | packages.NeedFiles | packages.NeedCompiledGoFiles | packages.NeedImports |
			packages.NeedTypes | packages.NeedTypesSizes | packages.NeedSyntax | packages.NeedTypesInfo | packages.NeedDeps,
		Dir:     dir,
		Overlay: overlay,
		Env:     append(os.Environ(), "GOFLAGS=-mod=mod", "GOPROXY=off", "GOSUMDB=off", "GOTOOLCHAIN=local"),
	}
	var pkgs []*packages.Package
	for round := 0; ; round++ {
		pkgs, err = packages.Load(cfg, "./"+pkgPat)
		if err != nil {
			return nil, nil, err
		}
		nerr := 0
		dropNow := map[string]string{}
		packages.Visit(pkgs, nil, func(p *packages.Package) {
			for _, e := range p.Errors {
				fmt.Fprintln(os.Stderr, "LOAD ERROR:", e)
				nerr++
				// a harness file that no longer type-checks against this tree (it uses an internal function whose
				// signature changed, ...) is dropped and the load is retried: the harnesses in the other files still
				// run; the dropped file is reported (machinery), never counted as passed
				file := e.Pos
				if i := strings.Index(file, ".go:"); i >= 0 {
					file = file[:i+3]
				}
				if _, isOverlay := overlay[file]; isOverlay && !strings.HasSuffix(file, "zz_verif_rt.go") {
					if _, seen := dropNow[file]; !seen {
						dropNow[file] = e.Msg
					}
				}
			}
		})
		if nerr == 0 {
			break
		}
		if len(dropNow) == 0 || round >= 6 {
			return nil, nil, fmt.Errorf("%d load errors", nerr)
		}
		for f, msg := range dropNow {
			delete(overlay, f)
			droppedHarnessFiles = append(droppedHarnessFiles, strings.TrimPrefix(filepath.Base(f), "zz_verif_")+": "+msg)
		}
	}
	prog, spkgs := ssautil.AllPackages(pkgs, ssa.InstantiateGenerics)
	prog.Build()
	return prog, spkgs[0], nil
}

func newEngine(prog *ssa.Program, cfg Config, params map[string]int, seed int) *Engine {
	e := &Engine{prog: prog, tb: NewTB(), params: params}
	e.intMode = cfg.Mode == "int"
	e.fpUF = cfg.FP == "uf"
	e.loopBound = cfg.Loop
	e.maxPaths = cfg.MaxPath
	e.prop = cfg.Prop
	e.maxInstr = 5_000_000
	e.solver = NewSolver(cfg.Solver, e.tb, cfg.Timeout, seed)
	return e
}

func main() {
	if len(os.Args) < 2 {
		fmt.Fprintln(os.Stderr, "usage: gosym run|replay|list [flags]")
		os.Exit(2)
	}
	cmd := os.Args[1]
	fs := flag.NewFlagSet(cmd, flag.ExitOnError)
	dir := fs.String("dir", "/repo/v2", "module directory")
	pkg := fs.String("pkg", "", "package path relative to the module dir (e.g. limit)")
	overlay := fs.String("overlay", "", "directory with harness .go files")
	rt := fs.String("rt", "/verif/harness/rt_engine.go.tmpl", "intrinsics template")
	pat := fs.String("harness", "^Verif", "regexp selecting harness functions")
	mode := fs.String("mode", "", "override: bv|int")
	fp := fs.String("fp", "", "override: exact|uf")
	solver := fs.String("solver", "", "override: z3|z3-new|cvc5")
	timeout := fs.Int("timeout", 30000, "per-query timeout (ms)")
	loop := fs.Int("loop", 0, "override loop bound")
	maxpaths := fs.Int("maxpaths", 0, "override max paths per harness")
	jobs := fs.Int("j", 8, "parallel workers")
	out := fs.String("out", "", "JSON output file")
	witness := fs.String("witness", "", "witness file (replay)")
	propFlag := fs.String("prop", "", "property id: assertions whose message is labelled for other properties only (\"C03/C08: ...\") are skipped")
	seed := fs.Int("seed", 0, "solver seed")
	verbose := fs.Bool("v", false, "verbose")
	maxtime := fs.Int("maxtime", 0, "stop exploring after this many seconds (results marked truncated)")
	var pvals multiFlag
	fs.Var(&pvals, "p", "parameter name=v1,v2,... (cartesian product of instances)")
	fs.Parse(os.Args[2:])

	t0 := time.Now()
	prog, spkg, err := loadProgram(*dir, *pkg, *overlay, *rt)
	if err != nil {
		fmt.Fprintln(os.Stderr, "load failed:", err)
		os.Exit(2)
	}
	loadS := time.Since(t0).Seconds()
	re := regexp.MustCompile(*pat)
	var fns []*ssa.Function
	for name, m := range spkg.Members {
		if f, ok := m.(*ssa.Function); ok && strings.HasPrefix(name, "Verif") && re.MatchString(name) {
			fns = append(fns, f)
		}
	}
	sort.Slice(fns, func(i, j int) bool { return fns[i].Name() < fns[j].Name() })
	if cmd == "gosites" {
		// every go statement in the non-test, non-internal code of the modules under test
		type site struct {
			Pos    string `json:"pos"`
			In     string `json:"in"`
			Callee string `json:"callee"`
		}
		uniq := map[string]site{}
		for f := range ssautil.AllFunctions(prog) {
			o := f
			if f.Origin() != nil {
				o = f.Origin()
			}
			if o.Pkg == nil || f.Blocks == nil {
				continue
			}
			path := o.Pkg.Pkg.Path()
			if !strings.HasPrefix(path, "github.com/akramarenkov/cqos") || strings.Contains(path, "/internal/") {
				continue
			}
			if strings.HasPrefix(o.Name(), "Verif") || strings.Contains(prog.Fset.Position(o.Pos()).Filename, "zz_verif_") {
				continue
			}
			for _, b := range f.Blocks {
				for _, ins := range b.Instrs {
					if g, ok := ins.(*ssa.Go); ok {
						callee := "?"
						if sc := g.Call.StaticCallee(); sc != nil {
							callee = sc.String()
							if sc.Origin() != nil {
								callee = sc.Origin().String()
							}
						}
						ps := posOf(prog, g.Pos())
						uniq[ps] = site{Pos: ps, In: o.String(), Callee: callee}
					}
				}
			}
		}
		var out2 []site
		for _, s := range uniq {
			out2 = append(out2, s)
		}
		sort.Slice(out2, func(i, j int) bool { return out2[i].Pos < out2[j].Pos })
		data, _ := json.MarshalIndent(out2, "", " ")
		if *out != "" {
			os.WriteFile(*out, data, 0o644)
		} else {
			os.Stdout.Write(data)
		}
		return
	}
	if cmd == "list" {
		for _, f := range fns {
			fmt.Println(f.Name())
		}
		return
	}
	if len(fns) == 0 {
		fmt.Fprintln(os.Stderr, "no harness matches", *pat)
		os.Exit(2)
	}
	mkcfg := func(f *ssa.Function) Config {
		cfg := Config{Mode: "bv", FP: "exact", Solver: "z3", Loop: 40, Timeout: *timeout, MaxPath: 200000, Prop: *propFlag}
		parseDirectives(f, &cfg)
		if *mode != "" {
			cfg.Mode = *mode
		}
		if *fp != "" {
			cfg.FP = *fp
		}
		if *solver != "" {
			cfg.Solver = *solver
		}
		if *loop != 0 {
			cfg.Loop = *loop
		}
		if *maxpaths != 0 {
			cfg.MaxPath = *maxpaths
		}
		return cfg
	}

	if cmd == "replay" {
		var w Witness
		data, err := os.ReadFile(*witness)
		if err != nil {
			fmt.Fprintln(os.Stderr, err)
			os.Exit(2)
		}
		if err := json.Unmarshal(data, &w); err != nil {
			fmt.Fprintln(os.Stderr, err)
			os.Exit(2)
		}
		var target *ssa.Function
		for _, f := range fns {
			if f.Name() == w.Harness {
				target = f
			}
		}
		if target == nil {
			fmt.Fprintln(os.Stderr, "harness not found:", w.Harness)
			os.Exit(2)
		}
		cfg := mkcfg(target)
		if cfg.Prop == "" {
			cfg.Prop = w.Property
		}
		e := newEngine(prog, cfg, w.Params, *seed)
		e.verbose = *verbose
		r := e.RunHarness(target, &w)
		e.solver.Close()
		r.Mode = cfg.Mode
		emit(*out, []*HarnessResult{r}, loadS, time.Since(t0).Seconds())
		return
	}

	// instances = harness × cartesian product of parameter values
	var insts []job
	combos := []map[string]int{{}}
	for _, pv := range pvals {
		kv := strings.SplitN(pv, "=", 2)
		var next []map[string]int
		for _, c := range combos {
			for _, v := range strings.Split(kv[1], ",") {
				n, _ := strconv.Atoi(v)
				m := map[string]int{}
				for k, x := range c {
					m[k] = x
				}
				m[kv[0]] = n
				next = append(next, m)
			}
		}
		combos = next
	}
	for _, f := range fns {
		for _, c := range combos {
			insts = append(insts, job{f, c})
		}
	}
	results := make([]*HarnessResult, len(insts))
	type task struct {
		inst   int
		prefix []Decision
	}
	var mu sync.Mutex
	cond := sync.NewCond(&mu)
	var stack []task
	outstanding := 0
	started := make([]time.Time, len(insts))
	remaining := make([]int, len(insts)) // outstanding tasks per instance
	npaths := make([]int, len(insts))
	for i := len(insts) - 1; i >= 0; i-- {
		stack = append(stack, task{i, nil})
		outstanding++
		remaining[i]++
		results[i] = newResult(insts[i].fn.Name(), insts[i].params)
	}
	finish := func(i int) {
		r := results[i]
		cfg := mkcfg(insts[i].fn)
		r.Mode = cfg.Mode + "/" + cfg.FP
		r.Solver = cfg.Solver
		r.WallS = time.Since(started[i]).Seconds()
		fmt.Fprintf(os.Stderr, "[%s %v] paths=%v asserts=%s queries=%d (%.1fs solver, %.1fs wall)\n",
			r.Name, r.Params, r.Paths, summarizeAsserts(r), r.Stats.Queries, r.Stats.Seconds, r.WallS)
	}
	stopProgress := make(chan bool)
	go func() {
		tk := time.NewTicker(15 * time.Second)
		defer tk.Stop()
		for {
			select {
			case <-stopProgress:
				return
			case <-tk.C:
				mu.Lock()
				tot := 0
				for _, n := range npaths {
					tot += n
				}
				fmt.Fprintf(os.Stderr, "  ... %.0fs: %d paths done, %d queued/running\n", time.Since(t0).Seconds(), tot, outstanding)
				if *maxtime > 0 && time.Since(t0).Seconds() > float64(*maxtime) && len(stack) > 0 {
					for _, t := range stack {
						results[t.inst].Truncated = true
						remaining[t.inst]--
					}
					outstanding -= len(stack)
					stack = nil
					cond.Broadcast()
				}
				mu.Unlock()
			}
		}
	}()
	var wg sync.WaitGroup
	for w := 0; w < *jobs; w++ {
		wg.Add(1)
		go func() {
			defer wg.Done()
			var e *Engine
			cur := -1
			flush := func() {
				if e != nil {
					e.solver.Close()
					if e.h != nil {
						e.h.Stats = e.solver.Stats
						mu.Lock()
						results[cur].merge(e.h)
						mu.Unlock()
					}
					e = nil
				}
			}
			for {
				mu.Lock()
				for len(stack) == 0 && outstanding > 0 {
					cond.Wait()
				}
				if outstanding == 0 {
					mu.Unlock()
					flush()
					cond.Broadcast()
					return
				}
				// prefer the newest task of the instance this worker already has an engine for
				k := len(stack) - 1
				for q := len(stack) - 1; q >= 0 && q >= len(stack)-64; q-- {
					if stack[q].inst == cur {
						k = q
						break
					}
				}
				t := stack[k]
				stack = append(stack[:k], stack[k+1:]...)
				if started[t.inst].IsZero() {
					started[t.inst] = time.Now()
				}
				mu.Unlock()
				if t.inst != cur {
					flush()
					cur = t.inst
					cfg := mkcfg(insts[cur].fn)
					e = newEngine(prog, cfg, insts[cur].params, *seed)
					e.verbose = *verbose
				}
				var alts [][]Decision
				func() {
					defer func() {
						if r := recover(); r != nil {
							fmt.Fprintf(os.Stderr, "ENGINE PANIC in %s: %v\n", insts[cur].fn.Name(), r)
							if e.h == nil {
								e.h = newResult(insts[cur].fn.Name(), insts[cur].params)
							}
							e.h.Paths["ENGINE-PANIC"]++
							e.h.PathDetails[fmt.Sprint("ENGINE-PANIC: ", r)]++
							if *verbose {
								panic(r)
							}
						}
					}()
					alts = e.RunOne(insts[cur].fn, t.prefix, nil)
				}()
				mu.Lock()
				npaths[cur]++
				cfg := mkcfg(insts[cur].fn)
				if cfg.MaxPath > 0 && npaths[cur] >= cfg.MaxPath && len(alts) > 0 {
					results[cur].Truncated = true
					alts = nil
				}
				if *maxtime > 0 && time.Since(t0).Seconds() > float64(*maxtime) && len(alts) > 0 {
					// past the deadline nothing new is started: the exploration is reported as truncated (never as passed)
					results[cur].Truncated = true
					alts = nil
				}
				for _, a := range alts {
					stack = append(stack, task{cur, a})
				}
				outstanding += len(alts) - 1
				remaining[cur] += len(alts) - 1
				done := remaining[cur] == 0
				mu.Unlock()
				cond.Broadcast()
				if done {
					// other workers may still hold partial results of this instance; they flush when they switch.
					// The final report is printed after all workers have finished.
				}
			}
		}()
	}
	wg.Wait()
	close(stopProgress)
	for i := range insts {
		finish(i)
	}
	emit(*out, results, loadS, time.Since(t0).Seconds())
}

func summarizeAsserts(r *HarnessResult) string {
	u, s, k, t := 0, 0, 0, 0
	for _, a := range r.Asserts {
		u += a.Unsat
		s += a.Sat
		k += a.Unknown
		t += a.Trivial
	}
	return fmt.Sprintf("unsat:%d sat:%d unknown:%d trivial:%d", u, s, k, t)
}

func emit(out string, rs []*HarnessResult, loadS, wallS float64) {
	doc := map[string]interface{}{"results": rs, "load_s": loadS, "wall_s": wallS, "dropped_harness_files": droppedHarnessFiles}
	data, _ := json.MarshalIndent(doc, "", " ")
	if out == "" {
		os.Stdout.Write(data)
		fmt.Println()
		return
	}
	os.WriteFile(out, data, 0o644)
}

type multiFlag []string

func (m *multiFlag) String() string     { return strings.Join(*m, " ") }
func (m *multiFlag) Set(s string) error { *m = append(*m, s); return nil }
