package main

import (
	"fmt"
	"go/token"
	"go/types"

	"golang.org/x/tools/go/ssa"
)

// Channels as seen by ONE goroutine. The rest of the world is represented by
// parked senders / receivers, sinks, tickers and on-block hooks (harness code).

type ChanObj struct {
	id       int
	elemT    types.Type
	cap      int
	buf      []Value
	bufEv    []int // happens-before: send event of each buffered value
	parkedEv []int
	parkedAt []*Term // precise time: instant from which a parked value is available (nil = now)
	period   *Term   // precise ticker: period
	nextDue  *Term   // precise ticker: instant from which the next tick is available
	closeEv  int
	closed   bool
	parked   []Value // values offered by environment senders blocked on this channel
	sink     bool    // environment consumer always ready; delivered values are logged
	waiters  int     // parked environment receivers
	log      []Value // values delivered to the environment
	ticker   bool    // time.Ticker channel (adversarial ticks within the tick budget)
	stopped  bool    // ticker stopped
	onBlock  []FuncV
	onSend   FuncV
	onRecv   FuncV
	onClose  FuncV
	capTerm  *Term
	name     string
	sends    int
	recvs    int
}

func (e *Engine) newChan(elemT types.Type, cap int) *ChanObj {
	e.nextObj++
	return &ChanObj{id: e.nextObj, elemT: elemT, cap: cap, closeEv: -1}
}

// ChanVAny wraps a channel object as an `any` holding a bidirectional channel value.
func ChanVAny(c *ChanObj) Value {
	return IfaceV{T: types.NewChan(types.SendRecv, c.elemT), V: ChanV{c}}
}

func (c *ChanObj) String() string {
	if c == nil {
		return "chan(nil)"
	}
	if c.name != "" {
		return c.name
	}
	return fmt.Sprintf("chan%d", c.id)
}

func (c *ChanObj) recvReady() bool {
	if c == nil {
		return false
	}
	return len(c.buf) > 0 || len(c.parked) > 0 || c.closed
}

func (c *ChanObj) sendReady() bool {
	if c == nil {
		return false
	}
	if c.closed {
		return true // will panic
	}
	return c.sink || len(c.buf) < c.cap || c.waiters > 0
}

func (e *Engine) doRecv(c *ChanObj, elemT types.Type) (Value, bool) {
	var v Value
	ok := true
	from := -1
	pop := func(evs *[]int) {
		if len(*evs) > 0 {
			from = (*evs)[0]
			*evs = (*evs)[1:]
		}
	}
	switch {
	case len(c.buf) > 0:
		v = c.buf[0]
		c.buf = c.buf[1:]
		pop(&c.bufEv)
		if len(c.parked) > 0 && (len(c.parkedAt) == 0 || c.parkedAt[0] == nil) {
			c.buf = append(c.buf, c.parked[0])
			c.parked = c.parked[1:]
			if len(c.parkedAt) > 0 {
				c.parkedAt = c.parkedAt[1:]
			}
			if len(c.parkedEv) > 0 {
				c.bufEv = append(c.bufEv, c.parkedEv[0])
				c.parkedEv = c.parkedEv[1:]
			}
		}
	case len(c.parked) > 0:
		v = c.parked[0]
		c.parked = c.parked[1:]
		if len(c.parkedAt) > 0 {
			c.parkedAt = c.parkedAt[1:]
		}
		pop(&c.parkedEv)
	case c.closed:
		v = e.zero(elemT)
		ok = false
		from = c.closeEv
	default:
		panic("doRecv on non-ready channel")
	}
	c.recvs++
	if e.hb.on {
		e.hbEdge(from, e.hbAdd('r', c, "", "recv"))
	}
	e.tracef("recv %s ok=%v", c, ok)
	if c.onRecv.Fn != nil {
		e.callValue(c.onRecv, IfaceV{T: elemT, V: v}, e.tb.Bool(ok))
	} else if e.onChanEvent.Fn != nil && !e.inChanEvent {
		e.inChanEvent = true
		e.callValue(e.onChanEvent, e.intConst(64, 1), ChanVAny(c), IfaceV{T: elemT, V: v}, e.tb.Bool(ok))
		e.inChanEvent = false
	}
	return v, ok
}

func (e *Engine) doSend(c *ChanObj, v Value, pos string) {
	if c.closed {
		e.progPanic("send on closed channel " + c.String() + " at " + pos)
	}
	c.sends++
	e.tracef("send %s", c)
	// the observer runs at the instant of the hand-over, before bookkeeping
	if c.onSend.Fn != nil {
		e.callValue(c.onSend, IfaceV{T: c.elemT, V: v})
	} else if e.onChanEvent.Fn != nil && !e.inChanEvent {
		e.inChanEvent = true
		e.callValue(e.onChanEvent, e.intConst(64, 0), ChanVAny(c), IfaceV{T: c.elemT, V: v}, e.tb.Bool(true))
		e.inChanEvent = false
	}
	switch {
	case c.waiters > 0:
		c.waiters--
		c.log = append(c.log, v)
	case c.sink:
		c.log = append(c.log, v)
	default:
		c.buf = append(c.buf, v)
		if e.hb.on {
			c.bufEv = append(c.bufEv, e.hbAdd('s', c, pos, "send"))
		}
	}
}

// runHooks lets the environment act while the goroutine is blocked. A hook that
// cannot (or will not) do anything calls vDecline(). The block is genuine
// (status BLOCKED) when every hook declined in a round; hooks that act without
// unblocking get further rounds, up to a horizon.
func (e *Engine) runHooks(chs []*ChanObj, ready func() bool) bool {
	if e.termSignalled {
		e.abort("LATE-BLOCK", "a blocking operation after the goroutine signalled termination")
	}
	for round := 0; round < 6; round++ {
		acted := false
		for _, c := range chs {
			if c == nil {
				continue
			}
			for _, h := range c.onBlock {
				e.tracef("block-hook %s", c)
				e.declined = false
				e.callValue(h)
				if !e.declined {
					acted = true
				}
				if ready() {
					return true
				}
			}
		}
		if e.anyBlock.Fn != nil {
			e.tracef("block-hook (global)")
			e.declined = false
			e.callValue(e.anyBlock)
			if !e.declined {
				acted = true
			}
			if ready() {
				return true
			}
		}
		if !acted {
			return ready()
		}
	}
	e.abort("ENV-HORIZON", "environment acted repeatedly without unblocking the goroutine")
	return false
}

func (e *Engine) tickAvailable(c *ChanObj) bool {
	return c != nil && c.ticker && !c.stopped && e.path.ticksLeft != 0
}

func (e *Engine) takeTick(c *ChanObj) {
	if e.path.ticksLeft > 0 {
		e.path.ticksLeft--
	}
	c.recvs++
	e.tracef("tick %s", c)
	e.advanceClock(nil)
	if e.tickHook.Fn != nil {
		e.callValue(e.tickHook)
	}
}

func (e *Engine) chanRecv(c *ChanObj, elemT types.Type, pos string) (Value, bool) {
	if c != nil && c.ticker {
		if c.stopped {
			// a stopped ticker never fires again: the receive blocks for ever
			e.abort("BLOCKED", "recv on the channel of a stopped ticker at "+pos)
		}
		if !e.tickAvailable(c) {
			e.abort("TICK-HORIZON", "tick budget exhausted at "+pos)
		}
		e.takeTick(c)
		return e.timeValue(e.path.now), true
	}
	if !c.recvReady() {
		if !e.runHooks([]*ChanObj{c}, c.recvReady) {
			e.abort("BLOCKED", "recv on "+c.String()+" at "+pos)
		}
	}
	return e.doRecv(c, elemT)
}

func (e *Engine) chanSend(c *ChanObj, v Value, pos string) {
	if !c.sendReady() && e.sinkAll && c != nil && !c.closed {
		// an environment goroutine (not modelled here) drains this channel eventually
		c.sink = true
	}
	if !c.sendReady() {
		if !e.runHooks([]*ChanObj{c}, c.sendReady) {
			e.abort("BLOCKED", "send on "+c.String()+" at "+pos)
		}
	}
	e.doSend(c, v, pos)
}

func (e *Engine) chanClose(c *ChanObj) {
	if c == nil {
		e.progPanic("close of nil channel")
	}
	if c.closed {
		e.progPanic("close of closed channel " + c.String())
	}
	if c.onClose.Fn != nil {
		e.callValue(c.onClose)
	}
	c.closed = true
	c.closeEv = e.hbAdd('c', c, "", "close")
	if e.termWatch[c] {
		e.termSignalled = true
	}
	e.tracef("close %s", c)
	e.closeEvents = append(e.closeEvents, c)
}

func (e *Engine) selectOp(fr *Frame, x *ssa.Select) Value {
	type st struct {
		c    *ChanObj
		send bool
		val  Value
		elem types.Type
	}
	var states []st
	var chs []*ChanObj
	for _, s := range x.States {
		c := e.get(fr, s.Chan).(ChanV).C
		t := st{c: c, send: s.Dir == types.SendOnly, elem: s.Chan.Type().Underlying().(*types.Chan).Elem()}
		if t.send {
			t.val = e.get(fr, s.Send)
		}
		states = append(states, t)
		chs = append(chs, c)
	}
	pos := posOf(e.prog, x.Pos())
	if e.precise {
		// ---- precise time: readiness of timed cases is decided against the symbolic clock
		lt := func(a, b *Term) *Term { return e.binopInt(token.LEQ, a, b, 64, true).(*Term) }
		chosen := -2
		for iter := 0; iter < 3 && chosen == -2; iter++ {
			e.clockInit()
			now := e.path.now
			var ready []int
			var wakes []*Term
			for i, s := range states {
				c := s.c
				if c == nil {
					continue
				}
				var cond *Term
				switch {
				case s.send:
					cond = e.tb.Bool(c.sendReady())
				case c.ticker:
					if c.stopped || c.nextDue == nil {
						cond = e.tb.Bool(false)
					} else {
						cond = lt(c.nextDue, now)
						wakes = append(wakes, c.nextDue)
					}
				case len(c.buf) > 0 || c.closed:
					cond = e.tb.Bool(true)
				case len(c.parked) > 0:
					if len(c.parkedAt) == 0 || c.parkedAt[0] == nil {
						cond = e.tb.Bool(true)
					} else {
						cond = lt(c.parkedAt[0], now)
						wakes = append(wakes, c.parkedAt[0])
					}
				default:
					cond = e.tb.Bool(false)
				}
				if e.decide(cond, "ready") {
					ready = append(ready, i)
				}
			}
			switch {
			case len(ready) > 0:
				chosen = ready[e.choose(len(ready), "#select")]
			case !x.Blocking:
				chosen = -1
			case len(wakes) == 0:
				if !e.runHooks(chs, func() bool {
					for _, s := range states {
						if s.c != nil && !s.c.ticker && (s.send && s.c.sendReady() || !s.send && s.c.recvReady()) {
							return true
						}
					}
					return false
				}) {
					e.abort("BLOCKED", "select at "+pos)
				}
			default:
				// nothing is ready: time passes until the earliest wake-up (plus at most the latency)
				nw := e.nondetInt("now", 64, true)
				e.addPC(lt(now, nw))
				e.addPC(lt(nw, e.intConstBig(64, true, pow2(62))))
				var some []*Term
				for _, w := range wakes {
					some = append(some, lt(w, nw))
					lim := w
					if e.latency != nil {
						lim = e.binopInt(token.ADD, w, e.latency, 64, true).(*Term)
					}
					e.addPC(lt(nw, lim))
				}
				e.addPC(e.tb.Or(some...))
				e.path.now = nw
				e.tracef("wait")
			}
		}
		if chosen == -2 {
			e.abort("ENV-HORIZON", "precise select did not settle at "+pos)
		}
		res := TupleV{e.intConst(64, int64(chosen)), e.tb.Bool(false)}
		for _, s := range states {
			if !s.send {
				res = append(res, e.zero(s.elem))
			}
		}
		if chosen >= 0 {
			s := states[chosen]
			if s.send {
				e.doSend(s.c, s.val, pos)
			} else {
				var v Value
				ok := true
				if s.c.ticker {
					if e.path.ticksLeft == 0 {
						e.abort("TICK-HORIZON", "tick budget exhausted in select at "+pos)
					}
					if e.path.ticksLeft > 0 {
						e.path.ticksLeft--
					}
					s.c.recvs++
					e.tracef("tick %s", s.c)
					// the next tick: the first grid point after now (plus jitter)
					now := e.path.now
					nd := e.nondetInt("due", 64, true)
					e.addPC(e.binopInt(token.LSS, now, nd, 64, true).(*Term))
					lim := e.binopInt(token.ADD, now, s.c.period, 64, true).(*Term)
					if e.latency != nil {
						lim = e.binopInt(token.ADD, lim, e.latency, 64, true).(*Term)
					}
					e.addPC(lt(nd, lim))
					s.c.nextDue = nd
					v = e.timeValue(now)
					if e.tickHook.Fn != nil {
						e.callValue(e.tickHook)
					}
				} else {
					v, ok = e.doRecv(s.c, s.elem)
				}
				res[1] = e.tb.Bool(ok)
				k := 2
				for i, t := range states {
					if !t.send {
						if i == chosen {
							res[k] = v
						}
						k++
					}
				}
			}
		} else {
			e.tracef("select default")
		}
		return res
	}
	readySet := func() (definite []int, maybe []int) {
		for i, s := range states {
			if s.c == nil {
				continue
			}
			if s.c.ticker {
				if e.tickAvailable(s.c) {
					maybe = append(maybe, i)
				}
				continue
			}
			if s.send && s.c.sendReady() || !s.send && s.c.recvReady() {
				definite = append(definite, i)
			}
		}
		return
	}
	def, maybe := readySet()
	if e.fairTicks && len(def) > 0 && e.lastTick[x] {
		// fairness: a continuously enabled case is not passed over twice in a row
		maybe = nil
	}
	chosen := -2
	switch {
	case len(def) > 0:
		opts := append(append([]int{}, def...), maybe...)
		chosen = opts[e.choose(len(opts), "#select")]
	case !x.Blocking:
		opts := append([]int{-1}, maybe...)
		chosen = opts[e.choose(len(opts), "#select-default")]
	default:
		if len(maybe) > 0 {
			// nothing else can happen before the tick unless a hook says so: offer both
			hooked := false
			for _, c := range chs {
				if c != nil && len(c.onBlock) > 0 {
					hooked = true
				}
			}
			if hooked && e.choose(2, "#tick-or-env") == 1 {
				if e.runHooks(chs, func() bool { d, _ := readySet(); return len(d) > 0 }) {
					d, _ := readySet()
					chosen = d[e.choose(len(d), "#select")]
					break
				}
			}
			chosen = maybe[e.choose(len(maybe), "#select-tick")]
		} else {
			ok := e.runHooks(chs, func() bool { d, _ := readySet(); return len(d) > 0 })
			if !ok {
				hasTicker := false
				for _, c := range chs {
					if c != nil && c.ticker && !c.stopped {
						hasTicker = true
					}
				}
				if hasTicker {
					e.abort("TICK-HORIZON", "tick budget exhausted in select at "+pos)
				}
				e.abort("BLOCKED", "select at "+pos)
			}
			d, m := readySet()
			opts := append(append([]int{}, d...), m...)
			chosen = opts[e.choose(len(opts), "#select")]
		}
	}
	if e.fairTicks {
		if e.lastTick == nil {
			e.lastTick = map[*ssa.Select]bool{}
		}
		e.lastTick[x] = chosen >= 0 && states[chosen].c != nil && states[chosen].c.ticker && len(def) > 0
	}
	if chosen >= 0 && !states[chosen].send && states[chosen].c != nil && states[chosen].c.closed &&
		len(states[chosen].c.buf) == 0 && len(states[chosen].c.parked) == 0 && e.lassoBound > 0 {
		if e.closedTaken == nil {
			e.closedTaken = map[*ssa.Select]int{}
		}
		e.closedTaken[x]++
		if e.closedTaken[x] > e.lassoBound {
			e.abort("LASSO", fmt.Sprintf("select at %s took the closed-channel (termination signal) case %d times without terminating", pos, e.closedTaken[x]))
		}
	}
	// result tuple: (index, recvOk, r_0..)
	res := TupleV{e.intConst(64, int64(chosen)), e.tb.Bool(false)}
	for _, s := range states {
		if !s.send {
			res = append(res, e.zero(s.elem))
		}
	}
	if chosen >= 0 {
		s := states[chosen]
		if s.send {
			e.doSend(s.c, s.val, pos)
		} else {
			var v Value
			ok := true
			if s.c.ticker {
				e.takeTick(s.c)
				v = e.timeValue(e.path.now)
			} else {
				v, ok = e.doRecv(s.c, s.elem)
			}
			res[1] = e.tb.Bool(ok)
			k := 2
			for i, t := range states {
				if !t.send {
					if i == chosen {
						res[k] = v
					}
					k++
				}
			}
		}
	} else {
		e.tracef("select default")
	}
	return res
}
