package main

import (
	"fmt"
	"go/token"
	"go/types"
	"math"
	"os"
	"regexp"
	"sort"
	"strings"

	"golang.org/x/tools/go/ssa"
)

func mathFloat64bits(f float64) uint64 { return math.Float64bits(f) }

type Decision struct {
	N      int  // number of options (2 for conditions)
	Choice int  // option taken
	Forced bool // only one option was feasible (no fork, nothing asserted)
	Kind   string
}

type AssertFail struct {
	Harness   string               `json:"harness"`
	Msg       string               `json:"msg"`
	Pos       string               `json:"pos"`
	Model     map[string]string    `json:"model"`
	Choices   []int                `json:"choices"`
	VChoices  []int                `json:"vchoices"`
	Decisions []int                `json:"decisions"`
	Params    map[string]int       `json:"params"`
	Trace     []string             `json:"trace,omitempty"`
	raw       map[string]ModelVal
}

type pathEnd struct {
	status string
	detail string
}

type Path struct {
	pc        []*Term
	prefix    []Decision
	log       []Decision
	nondetN   map[string]int
	reached   map[string]bool
	now       *Term
	clockN    int
	ticksLeft int
	trace     []string
	witness   *Witness // concrete replay
	choiceIdx int
	loopCount map[*ssa.If]int
	instrs    int
	dumps     []string
	callDepth int
	decided   map[int]bool // condition term id -> outcome already fixed on this path
}

type Witness struct {
	Harness string            `json:"harness"`
	Model   map[string]string `json:"model"`
	Choices []int             `json:"choices"`
	Params  map[string]int    `json:"params"`
	Property string           `json:"property"`
}

type Engine struct {
	prog    *ssa.Program
	tb      *TB
	solver  *Solver
	intMode bool
	fpUF    bool
	params  map[string]int

	nextObj int
	globals map[*ssa.Global]*Loc
	initRun map[*ssa.Package]bool

	path *Path
	work [][]Decision

	// per-harness bookkeeping
	h        *HarnessResult
	onStore  func(*Loc)
	nStores  int
	loopBound int
	maxPaths  int
	prop      string
	fnNames   map[*ssa.Package]map[string]bool
	maxInstr  int

	onceDone map[*Loc]bool
	wgCount  map[*Loc]int
	bigVals  map[*Loc]*Term
	atomics  map[*Loc]Value
	tickers  map[*Loc]*ChanObj

	verbose bool

	spawned      []spawnRec
	closeEvents  []*ChanObj
	sleeps       []*Term
	tickerStops  int
	tickerResets int
	tickerPeriod []*Term
	latency      *Term
	wgHook       FuncV
	tickHook     FuncV // observer: a tick was taken from a ticker channel
	watched      map[*Loc]bool
	watchHits    int
	sleepBudget  int
	noTickerMsg  string // vNoTickers: the harness' oracle does not apply to code that paces with a ticker (machinery stop, never a violation)
	declined     bool
	precise      bool
	hb           *hbState
	hbCache      map[*ssa.Function]bool
	spawnRan     map[int]bool
	inLeftover   bool
	termWatch    map[*ChanObj]bool
	termSignalled bool
	anyBlock     FuncV
	lassoBound   int
	closedTaken  map[*ssa.Select]int
	sinkAll      bool
	onChanEvent  FuncV
	inChanEvent  bool
	fairTicks    bool
	lastTick     map[*ssa.Select]bool
	replaced     map[string]FuncV
	inReplaced   map[string]bool
}

type AssertStat struct {
	Msg     string `json:"msg"`
	Pos     string `json:"pos"`
	Unsat   int    `json:"unsat"`
	Sat     int    `json:"sat"`
	Unknown int    `json:"unknown"`
	Trivial int    `json:"trivial"` // folded to true by the engine without a query
}

type HarnessResult struct {
	Name        string                 `json:"name"`
	Params      map[string]int         `json:"params"`
	Mode        string                 `json:"mode"`
	Solver      string                 `json:"solver"`
	Paths       map[string]int         `json:"paths"`
	PathDetails map[string]int         `json:"path_details"`
	Forks       int                    `json:"forks"`
	Asserts     map[string]*AssertStat `json:"asserts"`
	Fails       []*AssertFail          `json:"fails"`
	Reached     map[string]int         `json:"reached"`
	Funcs       map[string]int         `json:"funcs"`
	Stubs       map[string]int         `json:"stubs"`
	GoSites     map[string]int         `json:"go_sites"`
	Stats       SolverStats            `json:"solver_stats"`
	Unmodelled  []string               `json:"unmodelled"`
	Samples     []string               `json:"samples"`
	WallS       float64                `json:"wall_s"`
	Truncated   bool                   `json:"truncated"`
	Expect      map[string]string      `json:"expect"`
	Dumps       []string               `json:"dumps,omitempty"`
}

func (e *Engine) abort(status, detail string) {
	if e.inLeftover {
		switch status {
		case "BLOCKED", "LASSO", "BUDGET", "UNWIND", "TICK-HORIZON", "HORIZON", "ENV-HORIZON", "DEPTH", "LATE-BLOCK":
			detail = status + ": " + detail
			status = "GOROUTINE-LEAK"
		}
	}
	panic(pathEnd{status, detail})
}

// progPanic: a run-time panic of the program. Raised while LIBRARY code is executing it is a
// finding by default (the code under test crashes on an input / schedule the harness allows);
// raised in harness code it stays a machinery problem.
func (e *Engine) progPanic(msg string) {
	if e.hb != nil && e.hbInLibrary() {
		e.abort("LIB-PANIC", msg)
	}
	e.abort("PANIC", msg)
}

func (e *Engine) unmodelled(what string) { e.abort("UNMODELLED", what) }

func (e *Engine) tracef(f string, a ...interface{}) {
	if len(e.path.trace) < 400 {
		e.path.trace = append(e.path.trace, fmt.Sprintf(f, a...))
	}
}

// ---- path condition

func (e *Engine) addPC(c *Term) {
	if c.IsTrue() {
		return
	}
	if c.op == "and" {
		for _, a := range c.args {
			e.addPC(a)
		}
		return
	}
	e.path.pc = append(e.path.pc, c)
}

func (e *Engine) feasible(c *Term) bool {
	if c.IsTrue() {
		return true
	}
	if c.IsFalse() {
		return false
	}
	r, _ := e.solver.Check(e.path.pc, c, false)
	return r != "unsat" // unknown = keep
}

// decide resolves a symbolic condition, forking when both outcomes are feasible.
func (e *Engine) decide(c *Term, kind string) bool {
	if c.IsConst() {
		return c.bval
	}
	p := e.path
	if v, ok := p.decided[c.id]; ok {
		return v
	}
	if c.op == "not" {
		if v, ok := p.decided[c.args[0].id]; ok {
			return !v
		}
	}
	r := e.decide1(c, kind)
	p.decided[c.id] = r
	return r
}

func (e *Engine) decide1(c *Term, kind string) bool {
	p := e.path
	if len(p.log) < len(p.prefix) {
		d := p.prefix[len(p.log)]
		p.log = append(p.log, d)
		if !d.Forced {
			if d.Choice == 1 {
				e.addPC(c)
			} else {
				e.addPC(e.tb.Not(c))
			}
		}
		return d.Choice == 1
	}
	if p.witness != nil {
		// concrete replay: every nondet is a constant, so conditions fold; reaching
		// here means some symbol had no value in the witness
		e.abort("REPLAY-SYMBOLIC", e.tb.Str(c))
	}
	ft := e.feasible(c)
	ff := true
	if ft {
		ff = e.feasible(e.tb.Not(c))
	}
	switch {
	case ft && ff:
		alt := append(append([]Decision{}, p.log...), Decision{N: 2, Choice: 0, Kind: kind})
		e.work = append(e.work, alt)
		e.h.Forks++
		p.log = append(p.log, Decision{N: 2, Choice: 1, Kind: kind})
		e.addPC(c)
		return true
	case ft:
		p.log = append(p.log, Decision{N: 2, Choice: 1, Forced: true, Kind: kind})
		return true
	default:
		p.log = append(p.log, Decision{N: 2, Choice: 0, Forced: true, Kind: kind})
		return false
	}
}

// choose forks over n unconditional options.
func (e *Engine) choose(n int, kind string) int {
	if n <= 1 {
		return 0
	}
	p := e.path
	if p.witness != nil {
		c := 0
		if p.choiceIdx < len(p.witness.Choices) {
			c = p.witness.Choices[p.choiceIdx]
		}
		p.choiceIdx++
		if c >= n {
			c = 0
		}
		p.log = append(p.log, Decision{N: n, Choice: c, Kind: kind})
		return c
	}
	if len(p.log) < len(p.prefix) {
		d := p.prefix[len(p.log)]
		p.log = append(p.log, d)
		return d.Choice
	}
	for c := n - 1; c >= 1; c-- {
		alt := append(append([]Decision{}, p.log...), Decision{N: n, Choice: c, Kind: kind})
		e.work = append(e.work, alt)
		e.h.Forks++
	}
	p.log = append(p.log, Decision{N: n, Choice: 0, Kind: kind})
	return 0
}

func (p *Path) vchoices() []int {
	var cs []int
	for _, d := range p.log {
		if strings.HasPrefix(d.Kind, "#v:") {
			cs = append(cs, d.Choice)
		}
	}
	return cs
}

func (p *Path) choices() []int {
	var cs []int
	for _, d := range p.log {
		if d.Kind != "" && d.Kind[0] == '#' { // choice decisions are tagged with '#'
			cs = append(cs, d.Choice)
		}
	}
	return cs
}

// ---- nondeterministic values

func sanitize(s string) string {
	var sb strings.Builder
	for _, r := range s {
		if (r >= 'a' && r <= 'z') || (r >= 'A' && r <= 'Z') || (r >= '0' && r <= '9') || r == '_' || r == '.' {
			sb.WriteRune(r)
		} else {
			sb.WriteByte('_')
		}
	}
	return sb.String()
}

func (e *Engine) freshName(tag string) string {
	tag = sanitize(tag)
	n := e.path.nondetN[tag]
	e.path.nondetN[tag] = n + 1
	return fmt.Sprintf("%s!%d", tag, n)
}

func (e *Engine) nondetInt(tag string, w int, signed bool) *Term {
	name := e.freshName(tag)
	if wt := e.path.witness; wt != nil {
		s, ok := wt.Model[name]
		if !ok {
			s = "0"
		}
		v, _ := newBig(s)
		if e.intMode {
			return e.wrap(e.tb.IntBig(v), w, signed)
		}
		return e.tb.BVBig(w, v)
	}
	if e.intMode {
		t := e.tb.Var(name, SortInt)
		e.addPC(e.rangeCond(t, w, signed))
		return t
	}
	return e.tb.Var(name, SortBV(w))
}

func (e *Engine) nondetBool(tag string) *Term {
	name := e.freshName(tag)
	if wt := e.path.witness; wt != nil {
		return e.tb.Bool(wt.Model[name] == "true")
	}
	return e.tb.Var(name, SortBool)
}

func (e *Engine) nondetFloat(tag string) *Term {
	name := e.freshName(tag)
	if wt := e.path.witness; wt != nil {
		s := wt.Model[name]
		var bits uint64
		fmt.Sscanf(s, "fpbits:%x", &bits)
		return e.tb.FP(math.Float64frombits(bits))
	}
	return e.tb.Var(name, SortFP)
}

// ---- obligations

func (e *Engine) assertStat(msg, pos string) *AssertStat {
	k := msg
	st, ok := e.h.Asserts[k]
	if !ok {
		st = &AssertStat{Msg: msg, Pos: pos}
		e.h.Asserts[k] = st
	}
	return st
}

var labelRe = regexp.MustCompile(`^(C\d+(?:/C\d+)*):`)

// relevantMsg: an assertion message may start with the ids of the properties it belongs to
// ("C03/C08: ..."); any other message belongs to every property that runs the harness.
func (e *Engine) relevantMsg(msg string) bool {
	if e.prop == "" {
		return true
	}
	m := labelRe.FindStringSubmatch(msg)
	if m == nil {
		return true
	}
	for _, id := range strings.Split(m[1], "/") {
		if id == e.prop {
			return true
		}
	}
	return false
}

func (e *Engine) doAssert(c *Term, msg string, pos string) {
	if !e.relevantMsg(msg) {
		// belongs to other properties only: not evaluated here, so that its failure cannot cut short a
		// path on which an obligation of THIS property is still to come
		return
	}
	st := e.assertStat(msg, pos)
	if c.IsTrue() {
		st.Trivial++
		return
	}
	p := e.path
	if p.witness != nil {
		if c.IsFalse() {
			st.Sat++
			e.h.Fails = append(e.h.Fails, &AssertFail{Harness: e.h.Name, Msg: msg, Pos: pos, Choices: p.choices(), VChoices: p.vchoices(), Params: e.params, Trace: p.trace})
			e.abort("ASSERT-FAILED", msg)
		}
		e.abort("REPLAY-SYMBOLIC", "assert "+msg)
	}
	res, model := e.solver.Check(p.pc, e.tb.Not(c), true)
	switch res {
	case "unsat":
		st.Unsat++
		// the fact is implied; no need to add it
	case "sat":
		st.Sat++
		nf := 0
		for _, f := range e.h.Fails {
			if f.Msg == msg {
				nf++
			}
		}
		if nf < 3 {
			mm := map[string]string{}
			for k, v := range model {
				switch v.Kind {
				case "fp":
					mm[k] = fmt.Sprintf("fpbits:%016x", math.Float64bits(v.F))
				case "bool":
					mm[k] = fmt.Sprint(v.B)
				default:
					mm[k] = v.Big.String()
				}
			}
			var dec []int
			for _, d := range p.log {
				dec = append(dec, d.Choice)
			}
			e.h.Fails = append(e.h.Fails, &AssertFail{Harness: e.h.Name, Msg: msg, Pos: pos, Model: mm,
				Choices: p.choices(), VChoices: p.vchoices(), Params: e.params, Decisions: dec, Trace: append([]string{}, p.trace...), raw: model})
		}
		// continue under the assumption that the assertion held, if that is possible
		if !e.feasible(c) {
			e.abort("ASSERT-ALWAYS-FAILS", msg)
		}
		e.addPC(c)
	default:
		st.Unknown++
		e.addPC(c)
	}
}

func (e *Engine) doAssume(c *Term) {
	if c.IsTrue() {
		return
	}
	if e.path.witness != nil {
		if c.IsFalse() {
			e.abort("ASSUME-FALSE", "")
		}
		e.abort("REPLAY-SYMBOLIC", "assume")
	}
	if !e.feasible(c) {
		e.abort("ASSUME-FALSE", "")
	}
	e.addPC(c)
}

// ---- exploration

func (e *Engine) resetPathState() {
	e.nextObj = 0
	e.globals = map[*ssa.Global]*Loc{}
	e.initRun = map[*ssa.Package]bool{}
	e.onceDone = map[*Loc]bool{}
	e.wgCount = map[*Loc]int{}
	e.bigVals = map[*Loc]*Term{}
	e.atomics = map[*Loc]Value{}
	e.tickers = map[*Loc]*ChanObj{}
	e.onStore = nil
	e.spawned = nil
	e.closeEvents = nil
	e.sleeps = nil
	e.tickerStops = 0
	e.tickerResets = 0
	e.tickerPeriod = nil
	e.latency = nil
	e.wgHook = FuncV{}
	e.tickHook = FuncV{}
	e.watched = nil
	e.watchHits = 0
	e.sleepBudget = -1
	e.noTickerMsg = ""
	e.precise = false
	e.hbReset()
	e.spawnRan = map[int]bool{}
	e.inLeftover = false
	e.termWatch = map[*ChanObj]bool{}
	e.termSignalled = false
	e.anyBlock = FuncV{}
	e.lassoBound = 0
	e.closedTaken = nil
	e.sinkAll = false
	e.onChanEvent = FuncV{}
	e.inChanEvent = false
	e.fairTicks = false
	e.lastTick = nil
	e.replaced = map[string]FuncV{}
	e.inReplaced = map[string]bool{}
}

func (e *Engine) runPath(fn *ssa.Function, prefix []Decision, wit *Witness) (status, detail string) {
	e.resetPathState()
	e.path = &Path{prefix: prefix, nondetN: map[string]int{}, reached: map[string]bool{},
		loopCount: map[*ssa.If]int{}, witness: wit, ticksLeft: 4, decided: map[int]bool{}}
	defer func() {
		if r := recover(); r != nil {
			if pe, ok := r.(pathEnd); ok {
				status, detail = pe.status, pe.detail
				return
			}
			panic(r)
		}
	}()
	e.call(fn, nil, nil)
	return "DONE", ""
}

func newResult(name string, params map[string]int) *HarnessResult {
	return &HarnessResult{Name: name, Params: params, Paths: map[string]int{}, PathDetails: map[string]int{},
		Asserts: map[string]*AssertStat{}, Reached: map[string]int{}, Funcs: map[string]int{}, Stubs: map[string]int{},
		GoSites: map[string]int{}, Expect: map[string]string{}}
}

// RunOne explores exactly one path (the one selected by prefix) and returns the
// alternative prefixes discovered on the way.
func (e *Engine) RunOne(fn *ssa.Function, prefix []Decision, wit *Witness) [][]Decision {
	if e.h == nil {
		e.h = newResult(fn.Name(), e.params)
	}
	e.work = nil
	st, det := e.runPath(fn, prefix, wit)
	e.h.Paths[st]++
	if st != "DONE" && st != "ASSUME-FALSE" {
		k := st + ": " + det
		if len(k) > 200 {
			k = k[:200]
		}
		e.h.PathDetails[k]++
		if st == "UNMODELLED" {
			found := false
			for _, u := range e.h.Unmodelled {
				if u == det {
					found = true
				}
			}
			if !found {
				e.h.Unmodelled = append(e.h.Unmodelled, det)
			}
		}
	}
	if _, ok := e.h.Expect[st]; !ok && st == "LIB-PANIC" {
		e.h.Expect[st] = "fail:the code under test panics"
	}
	if v, ok := e.h.Expect[st]; ok && strings.HasPrefix(v, "fail:") && e.relevantMsg(v[5:]) {
		msg := v[5:]
		stt := e.assertStat(msg, "")
		stt.Sat++
		nf := 0
		for _, f := range e.h.Fails {
			if f.Msg == msg {
				nf++
			}
		}
		if nf < 3 {
			mm := map[string]string{}
			if wit == nil {
				if res, model := e.solver.Check(e.path.pc, nil, true); res == "sat" {
					for k, v := range model {
						switch v.Kind {
						case "fp":
							mm[k] = fmt.Sprintf("fpbits:%016x", math.Float64bits(v.F))
						case "bool":
							mm[k] = fmt.Sprint(v.B)
						default:
							mm[k] = v.Big.String()
						}
					}
				}
			}
			e.h.Fails = append(e.h.Fails, &AssertFail{Harness: e.h.Name, Msg: msg, Pos: det, Model: mm,
				Choices: e.path.choices(), VChoices: e.path.vchoices(), Params: e.params, Trace: append([]string{}, e.path.trace...)})
		}
	}
	for k := range e.path.reached {
		e.h.Reached[k]++
	}
	if len(e.h.Samples) < 8 && st == "DONE" && len(e.path.trace) > 0 {
		e.h.Samples = append(e.h.Samples, strings.Join(e.path.trace, " ; "))
	}
	if wit != nil {
		e.h.Dumps = e.path.dumps
	} else if len(e.h.Dumps) < 5000 {
		e.h.Dumps = append(e.h.Dumps, e.path.dumps...)
	}
	if e.verbose {
		fmt.Fprintf(os.Stderr, "  path: %s %s (pc=%d, log=%d, alts=%d)\n", st, det, len(e.path.pc), len(e.path.log), len(e.work))
	}
	alts := e.work
	e.work = nil
	return alts
}

func (e *Engine) RunHarness(fn *ssa.Function, wit *Witness) *HarnessResult {
	e.h = newResult(fn.Name(), e.params)
	work := [][]Decision{nil}
	n := 0
	for len(work) > 0 {
		prefix := work[len(work)-1]
		work = work[:len(work)-1]
		work = append(work, e.RunOne(fn, prefix, wit)...)
		n++
		if wit != nil {
			break
		}
		if e.maxPaths > 0 && n >= e.maxPaths {
			e.h.Truncated = len(work) > 0
			break
		}
	}
	e.h.Stats = e.solver.Stats
	return e.h
}

// merge folds another partial result of the same harness instance into r.
func (r *HarnessResult) merge(o *HarnessResult) {
	for k, v := range o.Paths {
		r.Paths[k] += v
	}
	for k, v := range o.PathDetails {
		r.PathDetails[k] += v
	}
	r.Forks += o.Forks
	for k, a := range o.Asserts {
		if x, ok := r.Asserts[k]; ok {
			x.Unsat += a.Unsat
			x.Sat += a.Sat
			x.Unknown += a.Unknown
			x.Trivial += a.Trivial
		} else {
			c := *a
			r.Asserts[k] = &c
		}
	}
	for _, f := range o.Fails {
		nf := 0
		for _, g := range r.Fails {
			if g.Msg == f.Msg {
				nf++
			}
		}
		if nf < 3 {
			r.Fails = append(r.Fails, f)
		}
	}
	for k, v := range o.Reached {
		r.Reached[k] += v
	}
	for k, v := range o.Funcs {
		r.Funcs[k] += v
	}
	for k, v := range o.Stubs {
		r.Stubs[k] += v
	}
	for k, v := range o.GoSites {
		r.GoSites[k] += v
	}
	for k, v := range o.Expect {
		r.Expect[k] = v
	}
	for _, u := range o.Unmodelled {
		found := false
		for _, x := range r.Unmodelled {
			if x == u {
				found = true
			}
		}
		if !found {
			r.Unmodelled = append(r.Unmodelled, u)
		}
	}
	if len(r.Samples) < 8 {
		r.Samples = append(r.Samples, o.Samples...)
	}
	r.Dumps = append(r.Dumps, o.Dumps...)
	s, t := &r.Stats, o.Stats
	s.Queries += t.Queries
	s.Sat += t.Sat
	s.Unsat += t.Unsat
	s.Unknown += t.Unknown
	s.Errors += t.Errors
	s.Seconds += t.Seconds
	s.Restarts += t.Restarts
	if t.MaxQuery > s.MaxQuery {
		s.MaxQuery = t.MaxQuery
	}
	r.Truncated = r.Truncated || o.Truncated
}

func sortedKeys(m map[string]int) []string {
	var ks []string
	for k := range m {
		ks = append(ks, k)
	}
	sort.Strings(ks)
	return ks
}

func posOf(prog *ssa.Program, p token.Pos) string {
	if !p.IsValid() {
		return ""
	}
	ps := prog.Fset.Position(p)
	return fmt.Sprintf("%s:%d", ps.Filename, ps.Line)
}

var _ = types.Typ
