package main

import (
	"fmt"
	"go/types"

	"golang.org/x/tools/go/ssa"
)

// Value is one of:
//   *Term            bool / integer / float scalars
//   string           Go strings (always concrete)
//   *StructV, *ArrayV (immutable aggregates)
//   PtrV, SliceV, MapV, ChanV, FuncV, IfaceV, TupleV
type Value interface{}

type StructV struct{ F []Value }
type ArrayV struct{ E []Value }
type TupleV []Value

type PtrV struct{ L *Loc }

type Backing struct {
	id    int
	cells []*Loc
	elemT types.Type
}

type SliceV struct {
	B             *Backing
	Off, Len, Cap int
}

type MapEntry struct {
	K Value
	V Value
}

type MapObj struct {
	id      int
	keyT    types.Type
	valT    types.Type
	entries []*MapEntry
}

type MapV struct{ M *MapObj }

type ChanV struct{ C *ChanObj }

type FuncV struct {
	Fn      *ssa.Function
	Env     []Value
	Builtin string // engine-provided closure (e.g. context cancel)
	Data    interface{}
}

type IfaceV struct {
	T types.Type // nil for nil interface
	V Value
}

// Loc is an addressable memory location (tree shaped for structs / arrays).
type Loc struct {
	id   int
	typ  types.Type
	v    Value
	kids []*Loc
	name string
}

func (e *Engine) newLoc(t types.Type) *Loc {
	e.nextObj++
	l := &Loc{id: e.nextObj, typ: t}
	switch u := t.Underlying().(type) {
	case *types.Struct:
		for i := 0; i < u.NumFields(); i++ {
			l.kids = append(l.kids, e.newLoc(u.Field(i).Type()))
		}
	case *types.Array:
		for i := int64(0); i < u.Len(); i++ {
			l.kids = append(l.kids, e.newLoc(u.Elem()))
		}
	default:
		l.v = e.zero(t)
	}
	return l
}

func (e *Engine) load(l *Loc) Value {
	if l == nil {
		e.progPanic("nil pointer dereference")
	}
	switch l.typ.Underlying().(type) {
	case *types.Struct:
		s := &StructV{F: make([]Value, len(l.kids))}
		for i, k := range l.kids {
			s.F[i] = e.load(k)
		}
		return s
	case *types.Array:
		a := &ArrayV{E: make([]Value, len(l.kids))}
		for i, k := range l.kids {
			a.E[i] = e.load(k)
		}
		return a
	}
	return l.v
}

func (e *Engine) store(l *Loc, v Value) {
	if l == nil {
		e.progPanic("nil pointer dereference (store)")
	}
	e.nStores++
	if e.onStore != nil {
		e.onStore(l)
	}
	switch l.typ.Underlying().(type) {
	case *types.Struct:
		s := v.(*StructV)
		for i, k := range l.kids {
			e.store(k, s.F[i])
		}
		return
	case *types.Array:
		a := v.(*ArrayV)
		for i, k := range l.kids {
			e.store(k, a.E[i])
		}
		return
	}
	l.v = v
}

func intWidth(b *types.Basic) (w int, signed bool, ok bool) {
	switch b.Kind() {
	case types.Int8:
		return 8, true, true
	case types.Int16:
		return 16, true, true
	case types.Int32:
		return 32, true, true
	case types.Int64, types.Int:
		return 64, true, true
	case types.Uint8:
		return 8, false, true
	case types.Uint16:
		return 16, false, true
	case types.Uint32:
		return 32, false, true
	case types.Uint64, types.Uint, types.Uintptr:
		return 64, false, true
	case types.UntypedInt, types.UntypedRune:
		return 64, true, true
	}
	return 0, false, false
}

func isFloat(t types.Type) bool {
	b, ok := t.Underlying().(*types.Basic)
	return ok && (b.Kind() == types.Float64 || b.Kind() == types.Float32 || b.Kind() == types.UntypedFloat)
}

func isInt(t types.Type) (int, bool, bool) {
	b, ok := t.Underlying().(*types.Basic)
	if !ok {
		return 0, false, false
	}
	return intWidth(b)
}

func isBool(t types.Type) bool {
	b, ok := t.Underlying().(*types.Basic)
	return ok && (b.Kind() == types.Bool || b.Kind() == types.UntypedBool)
}

func isString(t types.Type) bool {
	b, ok := t.Underlying().(*types.Basic)
	return ok && (b.Kind() == types.String || b.Kind() == types.UntypedString)
}

func (e *Engine) zero(t types.Type) Value {
	switch u := t.Underlying().(type) {
	case *types.Basic:
		if w, _, ok := intWidth(u); ok {
			return e.intConst(w, 0)
		}
		switch {
		case isBool(t):
			return e.tb.Bool(false)
		case isFloat(t):
			return e.floatConst(0)
		case isString(t):
			return ""
		case u.Kind() == types.UnsafePointer:
			return PtrV{}
		case u.Kind() == types.UntypedNil:
			return nil
		}
	case *types.Pointer:
		return PtrV{}
	case *types.Slice:
		return SliceV{}
	case *types.Map:
		return MapV{}
	case *types.Chan:
		return ChanV{}
	case *types.Signature:
		return FuncV{}
	case *types.Interface:
		return IfaceV{}
	case *types.Struct:
		s := &StructV{F: make([]Value, u.NumFields())}
		for i := range s.F {
			s.F[i] = e.zero(u.Field(i).Type())
		}
		return s
	case *types.Array:
		a := &ArrayV{E: make([]Value, u.Len())}
		for i := range a.E {
			a.E[i] = e.zero(u.Elem())
		}
		return a
	case *types.Tuple:
		tv := make(TupleV, u.Len())
		for i := range tv {
			tv[i] = e.zero(u.At(i).Type())
		}
		return tv
	}
	panic(fmt.Sprintf("zero: unsupported type %v (%T)", t, t.Underlying()))
}

func (e *Engine) newBacking(elemT types.Type, n int) *Backing {
	e.nextObj++
	b := &Backing{id: e.nextObj, elemT: elemT}
	for i := 0; i < n; i++ {
		b.cells = append(b.cells, e.newLoc(elemT))
	}
	return b
}

// describe renders a value for dumps / witnesses (concrete parts only).
func (e *Engine) describe(v Value) string {
	switch x := v.(type) {
	case nil:
		return "nil"
	case *Term:
		if x.IsConst() {
			switch x.sort.K {
			case KBool:
				return fmt.Sprint(x.bval)
			case KFP:
				return fmt.Sprint(x.fval)
			default:
				return x.val.String()
			}
		}
		return e.tb.Str(x)
	case string:
		return fmt.Sprintf("%q", x)
	case *StructV:
		s := "{"
		for i, f := range x.F {
			if i > 0 {
				s += " "
			}
			s += e.describe(f)
		}
		return s + "}"
	case *ArrayV:
		s := "["
		for i, f := range x.E {
			if i > 0 {
				s += " "
			}
			s += e.describe(f)
		}
		return s + "]"
	case TupleV:
		s := "("
		for i, f := range x {
			if i > 0 {
				s += ", "
			}
			s += e.describe(f)
		}
		return s + ")"
	case PtrV:
		if x.L == nil {
			return "nil"
		}
		return fmt.Sprintf("&obj%d", x.L.id)
	case SliceV:
		if x.B == nil {
			return "[]"
		}
		s := "["
		for i := 0; i < x.Len; i++ {
			if i > 0 {
				s += " "
			}
			s += e.describe(e.load(x.B.cells[x.Off+i]))
		}
		return s + "]"
	case MapV:
		if x.M == nil {
			return "map[]"
		}
		s := "map["
		for i, en := range x.M.entries {
			if i > 0 {
				s += " "
			}
			s += e.describe(en.K) + ":" + e.describe(en.V)
		}
		return s + "]"
	case ChanV:
		if x.C == nil {
			return "chan(nil)"
		}
		return fmt.Sprintf("chan%d", x.C.id)
	case FuncV:
		if x.Fn == nil {
			return "func(nil)"
		}
		return "func " + x.Fn.Name()
	case IfaceV:
		if x.T == nil {
			return "nil"
		}
		return "iface(" + x.T.String() + ")"
	}
	return fmt.Sprintf("%T", v)
}
