package main

// One live solver process per worker; the asserted stack mirrors the current
// path condition (one push frame per conjunct) so consecutive queries of a DFS
// re-use the common prefix.

import (
	"bufio"
	"fmt"
	"io"
	"math"
	"math/big"
	"os"
	"os/exec"
	"strings"
	"time"
)

type ModelVal struct {
	Kind string // "bv","int","bool","fp"
	Big  *big.Int
	B    bool
	F    float64
}

func (m ModelVal) String() string {
	switch m.Kind {
	case "bool":
		return fmt.Sprint(m.B)
	case "fp":
		return fmt.Sprintf("%v(0x%016x)", m.F, math.Float64bits(m.F))
	}
	return m.Big.String()
}

type SolverStats struct {
	Queries  int
	Sat      int
	Unsat    int
	Unknown  int
	Errors   int
	Seconds  float64
	MaxQuery float64
	Restarts int
}

type Solver struct {
	kind    string // z3 | z3-new | cvc5
	tb      *TB
	cmd     *exec.Cmd
	in      io.WriteCloser
	out     *bufio.Reader
	stack   []*Term
	declLvl map[string]int
	timeout int // ms
	Stats   SolverStats
	dump    io.Writer
	lastErr string
	seed    int
}

func NewSolver(kind string, tb *TB, timeoutMs int, seed int) *Solver {
	s := &Solver{kind: kind, tb: tb, timeout: timeoutMs, seed: seed}
	if d := os.Getenv("GOSYM_DUMP"); d != "" {
		f, err := os.OpenFile(d, os.O_CREATE|os.O_WRONLY|os.O_APPEND, 0o644)
		if err == nil {
			s.dump = f
		}
	}
	s.start()
	return s
}

func (s *Solver) start() {
	var cmd *exec.Cmd
	switch s.kind {
	case "z3", "z3-new":
		cmd = exec.Command(s.kind, "-in", "-smt2")
	case "cvc5":
		cmd = exec.Command("cvc5", "--incremental", "--produce-models", "--lang=smt2",
			fmt.Sprintf("--tlimit-per=%d", s.timeout), "--fp-exp")
	default:
		panic("unknown solver " + s.kind)
	}
	in, _ := cmd.StdinPipe()
	out, _ := cmd.StdoutPipe()
	cmd.Stderr = nil
	if err := cmd.Start(); err != nil {
		panic(err)
	}
	s.cmd, s.in, s.out = cmd, in, bufio.NewReaderSize(out, 1<<20)
	s.stack = nil
	s.declLvl = map[string]int{}
	if s.kind != "cvc5" {
		s.send("(set-option :produce-models true)")
		s.send(fmt.Sprintf("(set-option :timeout %d)", s.timeout))
		if s.seed != 0 {
			s.send(fmt.Sprintf("(set-option :random-seed %d)", s.seed))
			s.send(fmt.Sprintf("(set-option :smt.random_seed %d)", s.seed))
		}
	} else {
		s.send("(set-logic ALL)")
	}
	s.send("(declare-sort UFloat 0)")
}

func (s *Solver) Close() {
	if s.cmd != nil {
		s.in.Close()
		s.cmd.Process.Kill()
		s.cmd.Wait()
		s.cmd = nil
	}
}

func (s *Solver) restart() {
	s.Close()
	s.Stats.Restarts++
	s.start()
}

func (s *Solver) send(line string) {
	if s.dump != nil {
		fmt.Fprintln(s.dump, line)
	}
	io.WriteString(s.in, line)
	io.WriteString(s.in, "\n")
}

const doneMark = "<<gosym-done>>"

// roundTrip sends the commands followed by an echo marker and returns the
// output lines before the marker.
func (s *Solver) roundTrip(cmds ...string) ([]string, error) {
	for _, c := range cmds {
		s.send(c)
	}
	s.send("(echo \"" + doneMark + "\")")
	var lines []string
	for {
		l, err := s.out.ReadString('\n')
		if err != nil {
			return lines, fmt.Errorf("solver died: %v", err)
		}
		l = strings.TrimRight(l, "\r\n")
		if strings.Contains(l, doneMark) {
			return lines, nil
		}
		if l != "" {
			lines = append(lines, l)
		}
	}
}

func (s *Solver) declare(ts []*Term, lvl int) {
	vars, ufs := s.tb.Vars(ts)
	for _, v := range vars {
		if _, ok := s.declLvl[v.name]; !ok {
			s.declLvl[v.name] = lvl
			s.send(fmt.Sprintf("(declare-fun %s () %s)", v.name, v.sort))
		}
	}
	for _, u := range ufs {
		if _, ok := s.declLvl["uf:"+u.Name]; !ok {
			s.declLvl["uf:"+u.Name] = lvl
			var as []string
			for _, a := range u.Args {
				as = append(as, a.String())
			}
			s.send(fmt.Sprintf("(declare-fun %s (%s) %s)", u.Name, strings.Join(as, " "), u.Res))
		}
	}
}

func (s *Solver) popTo(n int) {
	if n >= len(s.stack) {
		return
	}
	s.send(fmt.Sprintf("(pop %d)", len(s.stack)-n))
	s.stack = s.stack[:n]
	for k, l := range s.declLvl {
		if l > n {
			delete(s.declLvl, k)
		}
	}
}

func (s *Solver) sync(pc []*Term) {
	i := 0
	for i < len(pc) && i < len(s.stack) && pc[i] == s.stack[i] {
		i++
	}
	s.popTo(i)
	for ; i < len(pc); i++ {
		s.send("(push 1)")
		s.stack = append(s.stack, pc[i])
		s.declare([]*Term{pc[i]}, len(s.stack))
		s.send("(assert " + s.tb.Str(pc[i]) + ")")
	}
}

// Check decides satisfiability of pc ∧ extra. Result: "sat" | "unsat" | "unknown".
func (s *Solver) Check(pc []*Term, extra *Term, wantModel bool) (string, map[string]ModelVal) {
	t0 := time.Now()
	defer func() {
		d := time.Since(t0).Seconds()
		s.Stats.Seconds += d
		if d > s.Stats.MaxQuery {
			s.Stats.MaxQuery = d
		}
	}()
	s.Stats.Queries++
	for attempt := 0; attempt < 2; attempt++ {
		s.sync(pc)
		s.send("(push 1)")
		lvl := len(s.stack) + 1
		if extra != nil {
			s.declare([]*Term{extra}, lvl)
			s.send("(assert " + s.tb.Str(extra) + ")")
		}
		lines, err := s.roundTrip("(check-sat)")
		res := "unknown"
		bad := false
		for _, l := range lines {
			if strings.HasPrefix(l, "(error") {
				bad = true
				s.lastErr = l
			}
			switch l {
			case "sat", "unsat", "unknown":
				res = l
			}
		}
		if err != nil {
			s.lastErr = err.Error()
			s.restart()
			if attempt == 0 {
				continue
			}
			s.Stats.Unknown++
			return "unknown", nil
		}
		if bad {
			s.Stats.Errors++
			res = "unknown"
			fmt.Fprintln(os.Stderr, "SOLVER ERROR:", s.lastErr)
		}
		var model map[string]ModelVal
		if res == "sat" && wantModel {
			model = s.getModel(pc, extra)
		}
		// pop the query frame
		s.send("(pop 1)")
		for k, l := range s.declLvl {
			if l >= lvl {
				delete(s.declLvl, k)
			}
		}
		switch res {
		case "sat":
			s.Stats.Sat++
		case "unsat":
			s.Stats.Unsat++
		default:
			s.Stats.Unknown++
		}
		return res, model
	}
	return "unknown", nil
}

func (s *Solver) getModel(pc []*Term, extra *Term) map[string]ModelVal {
	all := append([]*Term{}, pc...)
	if extra != nil {
		all = append(all, extra)
	}
	vars, _ := s.tb.Vars(all)
	var names []string
	for _, v := range vars {
		if v.sort.K == KUF {
			continue
		}
		names = append(names, v.name)
	}
	model := map[string]ModelVal{}
	if len(names) == 0 {
		return model
	}
	lines, err := s.roundTrip("(get-value (" + strings.Join(names, " ") + "))")
	if err != nil {
		return model
	}
	sx, _ := parseSexp(strings.Join(lines, " "))
	if sx == nil {
		return model
	}
	for _, pair := range sx.list {
		if len(pair.list) != 2 {
			continue
		}
		name := pair.list[0].atom
		if mv, ok := parseModelVal(pair.list[1]); ok {
			model[name] = mv
		}
	}
	return model
}

// ---- s-expressions

type sexp struct {
	atom string
	list []*sexp
	isL  bool
}

func parseSexp(s string) (*sexp, string) {
	s = strings.TrimLeft(s, " \t\n")
	if s == "" {
		return nil, ""
	}
	if s[0] == '(' {
		n := &sexp{isL: true}
		s = s[1:]
		for {
			s = strings.TrimLeft(s, " \t\n")
			if s == "" {
				return n, ""
			}
			if s[0] == ')' {
				return n, s[1:]
			}
			var c *sexp
			c, s = parseSexp(s)
			if c == nil {
				return n, s
			}
			n.list = append(n.list, c)
		}
	}
	i := 0
	if s[0] == '|' {
		i = 1 + strings.IndexByte(s[1:], '|') + 1
	} else {
		for i < len(s) && !strings.ContainsRune(" \t\n()", rune(s[i])) {
			i++
		}
	}
	return &sexp{atom: s[:i]}, s[i:]
}

func bitsOf(a string) (string, bool) {
	if strings.HasPrefix(a, "#b") {
		return a[2:], true
	}
	if strings.HasPrefix(a, "#x") {
		v, ok := new(big.Int).SetString(a[2:], 16)
		if !ok {
			return "", false
		}
		return fmt.Sprintf("%0*s", 4*(len(a)-2), v.Text(2)), true
	}
	return "", false
}

func parseModelVal(x *sexp) (ModelVal, bool) {
	if !x.isL {
		a := x.atom
		switch {
		case a == "true":
			return ModelVal{Kind: "bool", B: true}, true
		case a == "false":
			return ModelVal{Kind: "bool", B: false}, true
		case strings.HasPrefix(a, "#x"):
			v, ok := new(big.Int).SetString(a[2:], 16)
			return ModelVal{Kind: "bv", Big: v}, ok
		case strings.HasPrefix(a, "#b"):
			v, ok := new(big.Int).SetString(a[2:], 2)
			return ModelVal{Kind: "bv", Big: v}, ok
		default:
			v, ok := new(big.Int).SetString(a, 10)
			return ModelVal{Kind: "int", Big: v}, ok
		}
	}
	l := x.list
	if len(l) == 2 && l[0].atom == "-" {
		v, ok := parseModelVal(l[1])
		if ok && v.Big != nil {
			v.Big = new(big.Int).Neg(v.Big)
		}
		return v, ok
	}
	if len(l) >= 3 && l[0].atom == "_" {
		a := l[1].atom
		if strings.HasPrefix(a, "bv") {
			v, ok := new(big.Int).SetString(a[2:], 10)
			return ModelVal{Kind: "bv", Big: v}, ok
		}
		switch a {
		case "+zero":
			return ModelVal{Kind: "fp", F: 0}, true
		case "-zero":
			return ModelVal{Kind: "fp", F: math.Copysign(0, -1)}, true
		case "+oo":
			return ModelVal{Kind: "fp", F: math.Inf(1)}, true
		case "-oo":
			return ModelVal{Kind: "fp", F: math.Inf(-1)}, true
		case "NaN":
			return ModelVal{Kind: "fp", F: math.NaN()}, true
		}
	}
	if len(l) == 4 && l[0].atom == "fp" {
		sg, ok1 := bitsOf(l[1].atom)
		ex, ok2 := bitsOf(l[2].atom)
		mn, ok3 := bitsOf(l[3].atom)
		if ok1 && ok2 && ok3 {
			all := sg + ex + mn
			if len(all) > 64 {
				all = all[len(all)-64:]
			}
			v, _ := new(big.Int).SetString(all, 2)
			return ModelVal{Kind: "fp", F: math.Float64frombits(v.Uint64())}, true
		}
	}
	return ModelVal{}, false
}

// Script renders a standalone SMT-LIB script for pc ∧ extra (cross-solver diff).
func (s *Solver) Script(pc []*Term, extra *Term) string {
	all := append([]*Term{}, pc...)
	if extra != nil {
		all = append(all, extra)
	}
	var sb strings.Builder
	sb.WriteString("(declare-sort UFloat 0)\n")
	vars, ufs := s.tb.Vars(all)
	for _, v := range vars {
		fmt.Fprintf(&sb, "(declare-fun %s () %s)\n", v.name, v.sort)
	}
	for _, u := range ufs {
		var as []string
		for _, a := range u.Args {
			as = append(as, a.String())
		}
		fmt.Fprintf(&sb, "(declare-fun %s (%s) %s)\n", u.Name, strings.Join(as, " "), u.Res)
	}
	for _, a := range all {
		sb.WriteString("(assert " + s.tb.Str(a) + ")\n")
	}
	sb.WriteString("(check-sat)\n")
	return sb.String()
}
