# Property -> harness groups. One group = one gosym invocation (one package, one overlay).
# params: per tier, name -> list of values (cartesian product = harness instances).

PROPS = {}
NOT_APPLICABLE = {}

PROPS["C13"] = dict(
    level="proof",
    level_text="Every obligation of the statement (zero Rate with an error, validity, >= minimum, Quantity 1 unless Interval == minimum, both speed bounds, "
               "error only for the documented causes, Optimize/Flatten = Recalculate(10ms/0)) is one SMT query over the real SSA of Recalculate/recalculateQuantity/IsValid "
               "with Interval, Quantity and minimum ranging over their whole 64-bit types; unsat = holds for every input. Counterexamples are replayed natively.",
    level_note="Trusted: the gosym encoder (Int encoding with explicit mod 2^64 wrap), the math/big stub (mathematical integers, truncated Quo), z3. "
               "No bound on magnitudes; the code has no loops. Not a proof-assistant proof: 'proof' here means all obligations discharged by the solver over the full domain.",
    technique="symbolic execution of go/ssa, integer (non-bit-vector) SMT encoding, z3; whole 64-bit domain",
    explanation="Rate.Recalculate/Optimize/Flatten executed symbolically from go/ssa in the integer encoding "
                "(machine words wrap via explicit mod 2^64, math/big = mathematical integers); every obligation is one SMT query "
                "over the full int64/uint64 domain of (Interval, Quantity, minimum) - there is no magnitude bound.",
    bounds=dict(quick="whole domain: Interval in int64, Quantity in uint64, minimum in int64; no loops in the encoded code",
                thorough="same, plus a z3-new and cvc5 cross-check of every query"),
    assumptions=["math/big.Int SetUint64/SetInt64/Mul/Quo/IsUint64/Uint64 modelled as mathematical integers (truncated division)",
                 "error values are distinct package-level variables (compared by identity)"],
    groups=[
        dict(mod="v2", pkg="limit", overlay="harness/v2/limit", harness="^VerifC13_", native=True, mode="int"),
    ],
)
