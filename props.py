# Property -> harness groups. One group = one gosym invocation (one package, one overlay).
# params: per tier, name -> list of values (cartesian product = harness instances).

PROPS = {}
NOT_APPLICABLE = {}

PROPS["C13"] = dict(
    level="proof",
    level_text="Every obligation of the statement (zero Rate with an error, validity, >= minimum, Quantity 1 unless Interval == minimum, both speed bounds, "
               "error only for the documented causes, Optimize/Flatten = Recalculate(10ms/0)) is one SMT query over the real SSA of Recalculate/recalculateQuantity/IsValid "
               "with Interval, Quantity and minimum ranging over their whole 64-bit types; unsat = holds for every input. Counterexamples are replayed natively.",
    level_note="Trusted: the gosym encoder (Int encoding with explicit mod 2^64 wrap), the math/big stub (mathematical integers, truncated Quo), z3. "
               "No bound on magnitudes; the code has no loops. Not a proof-assistant proof: 'proof' here means all obligations discharged by the solver over the full domain.",
    technique="symbolic execution of go/ssa, integer (non-bit-vector) SMT encoding, z3; whole 64-bit domain",
    explanation="Rate.Recalculate/Optimize/Flatten executed symbolically from go/ssa in the integer encoding "
                "(machine words wrap via explicit mod 2^64, math/big = mathematical integers); every obligation is one SMT query "
                "over the full int64/uint64 domain of (Interval, Quantity, minimum) - there is no magnitude bound.",
    bounds=dict(quick="whole domain: Interval in int64, Quantity in uint64, minimum in int64; no loops in the encoded code",
                thorough="same, plus every query decided a second time by z3 5.1.0 (cvc5 1.0.3 decides all but one of them within 30 s; not registered)"),
    assumptions=["math/big.Int SetUint64/SetInt64/Mul/Quo/IsUint64/Uint64 modelled as mathematical integers (truncated division)",
                 "error values are distinct package-level variables (compared by identity)"],
    groups=[
        dict(mod="v2", pkg="limit", overlay="harness/v2/limit", harness="^VerifC13_", native=True, mode="int"),
        # thorough: the same obligations decided independently by a second solver (z3 5.1.0)
        dict(mod="v2", pkg="limit", overlay="harness/v2/limit", harness="^VerifC13_", native=True, mode="int", solver="z3-new", thorough_only=True),
    ],
)

PROPS["C14"] = dict(
    level="model_checking",
    level_text="Bounded symbolic checking of the real Fair/Rate (both modules) from go/ssa: conservation, frame (nothing else changes), Fair's shape and v1==v2 are decided "
               "for SYMBOLIC priority lists of length n (distinct, descending, full 64-bit values), symbolic 64-bit dividend and symbolic pre-filled distribution; "
               "Rate's conservation/frame/equivalence hold for ANY value of its float expressions (uninterpreted-function encoding). Rate's order and n/2 share bound are "
               "decided on a catalogue of concrete lists with a symbolic dividend, split into L1 (exact IEEE-754: the rounded part is within 1/2 of the exact share) and "
               "L2 (the real Rate with only L1 assumed about its float expression), plus a direct exact-float cross-check for small dividends.",
    level_note="Bounds: n<=4 quick / n<=8 thorough; E foreign keys; catalogue lists; dividend < 2^Dbits for the float parts. Recorded finding (known_findings.txt): from dividends of 2^54 up the share clause fails (float64 precision); the exact-float instances at 2^54+d report it as KNOWN-FINDING. Outside: fully symbolic priorities under exact floats, priorities whose sum exceeds the word, "
               "dividends >= 2^32 for the share bound. Trusted: encoder, SMT solvers' FP theory (cvc5), math.Round = roundToIntegral RNA, float64(uint) = to_fp_unsigned RNE, uint(float) = fp.to_ubv RTZ.",
    technique="symbolic execution of go/ssa; Int encoding (Fair), uninterpreted floats (Rate structure), exact SMT floating point with cvc5 (Rate values)",
    bounds=dict(quick="Fair/Rate-structure n in 1..4 symbolic priorities, E=1 foreign key; equivalence n in 1..4; L1 on lists [3 2 1],[2 1],[1] with D<2^16; L2 on [3 2 1],[70 20 10],[7 5 3 1] with D<2^32; exact Rate on [3 2 1],[7 5 3 1] with D<2^6, and on [1],[2 1] with D = 2^53 + d and 2^54 + d, d<16 (both modules)",
                thorough="n in 1..8, E=2; equivalence n<=6; L1 D<2^32 on [3 2 1],[2 1],[1]; L2 on 8 lists; exact Rate D<2^10 (share obligations on optionally pre-filled maps); D = 2^b + d, b in {53,54,60,63}, d<16 on [1],[2 1],[3 2 1] (b=63: conservation and order only)"),
    assumptions=["float semantics: SMT-LIB FloatingPoint 11 53, RNE; math.Round = roundToIntegral RNA; conversions RNE/RTZ",
                 "maps are association lists with pairwise-distinct symbolic keys; map iteration order irrelevant to Fair/Rate (they index by the list)"],
    groups=[
        dict(mod="v2", pkg="priority/divider", overlay="harness/v2/divider", harness="^VerifC14_fair$", native=True,
             params=dict(quick=dict(n=[1, 2, 3, 4], E=[0, 1]), thorough=dict(n=[1, 2, 3, 4, 5, 6, 7, 8], E=[0, 2]))),
        dict(mod="v1", pkg="priority", overlay="harness/v1/priority", harness="^VerifC14_fair$", native=True,
             params=dict(quick=dict(n=[1, 2, 3, 4], E=[0, 1]), thorough=dict(n=[1, 2, 3, 4, 5, 6, 7, 8], E=[0, 2]))),
        # Rate structure under uninterpreted floats: a pass holds for any float values; a counterexample is a candidate, refined by rate_wide
        dict(mod="v2", pkg="priority/divider", overlay="harness/v2/divider", harness="^VerifC14_(rate_conservation|degenerate)$", approx=True, refined_by="rate_wide",
             params=dict(quick=dict(n=[1, 2, 3, 4], E=[0, 1]), thorough=dict(n=[1, 2, 3, 4, 5, 6, 7, 8], E=[0, 2]))),
        dict(mod="v1", pkg="priority", overlay="harness/v1/priority", harness="^VerifC14_(rate_conservation|degenerate)$", approx=True, refined_by="rate_wide_v1",
             params=dict(quick=dict(n=[1, 2, 3, 4], E=[0, 1]), thorough=dict(n=[1, 2, 3, 4, 5, 6, 7, 8], E=[0, 2]))),
        dict(mod="equiv", pkg="", overlay="harness/equiv/src", harness="^VerifC14_equiv", native=False, approx=True, refined_by="rate_wide",
             params=dict(quick=dict(n=[1, 2, 3, 4]), thorough=dict(n=[1, 2, 3, 4, 5, 6]))),
        dict(name="rate_wide", mod="v2", pkg="priority/divider", overlay="harness/v2/divider", harness="^VerifC14_rate_exact$", native=True, only_as_refinement=True,
             timeout=120000, params=dict(quick=dict(list=[0, 1, 2, 3, 4, 13, 14, 15], Dbits=[6]), thorough=dict(list=[0, 1, 2, 3, 4, 13, 14, 15], Dbits=[6]))),
        dict(name="rate_wide_v1", mod="v1", pkg="priority", overlay="harness/v1/priority", harness="^VerifC14_rate_exact$", native=True, only_as_refinement=True,
             timeout=120000, params=dict(quick=dict(list=[0, 1, 2, 3, 4, 13, 14, 15], Dbits=[6]), thorough=dict(list=[0, 1, 2, 3, 4, 13, 14, 15], Dbits=[6]))),
        dict(mod="v2", pkg="priority/divider", overlay="harness/v2/divider", harness="^VerifC14_rate_L1$", native=True, timeout=dict(quick=60000, thorough=300000),
             params=dict(quick=dict(list=[0, 4, 5], k=[0, 1, 2], Dbits=[16]), thorough=dict(list=[0, 4, 5], k=[0, 1, 2], Dbits=[32]))),
        dict(mod="v2", pkg="priority/divider", overlay="harness/v2/divider", harness="^VerifC14_rate_L2$", native=True, approx=True, timeout=dict(quick=60000, thorough=300000),
             params=dict(quick=dict(list=[0, 1, 3], Dbits=[32]), thorough=dict(list=[0, 1, 2, 3, 4, 5, 6, 7], Dbits=[32]))),
        dict(mod="v2", pkg="priority/divider", overlay="harness/v2/divider", harness="^VerifC14_rate_exact$", native=True, timeout=dict(quick=60000, thorough=300000),
             params=dict(quick=dict(list=[0, 3, 14], Dbits=[6]), thorough=dict(list=[0, 1, 2, 3, 4, 5, 14], Dbits=[10]))),
        # dividends 2^Dbase + d (d symbolic): magnitudes at which float64 no longer represents every integer (2^53) and the top of the type (2^63)
        dict(name="rate_big", mod="v2", pkg="priority/divider", overlay="harness/v2/divider", harness="^VerifC14_rate_exact$", native=True, timeout=dict(quick=60000, thorough=300000),
             params=dict(quick=dict(list=[5, 4], Dbits=[4], Dbase=[53, 54]), thorough=dict(list=[5, 4, 0], Dbits=[4], Dbase=[53, 54, 60, 63]))),
        dict(name="rate_big_v1", mod="v1", pkg="priority", overlay="harness/v1/priority", harness="^VerifC14_rate_exact$", native=True, timeout=dict(quick=60000, thorough=300000),
             params=dict(quick=dict(list=[5, 4], Dbits=[4], Dbase=[53, 54]), thorough=dict(list=[5, 4, 0], Dbits=[4], Dbase=[53, 54, 60, 63]))),
    ],
)

PROPS["C18"] = dict(
    level="model_checking",
    level_text="Bounded symbolic checking of the real utils helpers: IsNonFatalConfig is compared with the subset definition evaluated BY LOOKUP in the harness, for symbolic priority "
               "sets in every input order (Fair: exact, Int encoding, q over the whole uint range; Rate: uninterpreted float arithmetic, i.e. for any float values, with an exact-float "
               "refinement on a catalogue whenever a candidate appears); the four PickUp loops are run against an UNINTERPRETED predicate (contract substitution of isNonFatalConfig / "
               "isSuitableConfig), so least/greatest-q holds for every divider and limit; the arguments handed to the predicate are checked to be all 2^n-1 sorted combinations; "
               "non-fatal => accepted by the real v2 constructor for symbolic priorities and HandlersQuantity (Fair exact, Rate for any float values); the same obligations on the v1 copies in priority/utils.go.",
    level_note="Bounds: n<=3 (Fair), n<=2 (Rate structure), max<=6 quick / 12 thorough for the PickUp loops. Outside: the numeric value of isDistributionSuitable's percentage test "
               "(only its structure: suitable => non-fatal; monotonicity in the limit is covered for n=1), n>4. v1 utils is a line-for-line copy and is checked by the v1 group.",
    technique="symbolic execution of go/ssa; Int encoding; uninterpreted floats with exact-float refinement (cvc5); contract substitution with an uninterpreted predicate",
    bounds=dict(quick="Fair n<=3 all permutations, q in uint64; Rate-UF n<=2; PickUp max<=6; non-fatal => accepted: Fair n<=3, Rate n<=2; both modules", thorough="Fair n<=4; Rate exact on [3 2 1],[7 5 3 1],[2 1] with q<16; PickUp max<=12; non-fatal => accepted: Rate n<=2 (n=3 does not finish)"),
    assumptions=["a sat answer under uninterpreted floats is only a candidate and is refined under exact floats before it is reported",
                 "PickUp loops: max below 2^64-1 (the loop counter would wrap otherwise; outside the stated range 0..300)"],
    groups=[
        dict(mod="v2", pkg="priority/utils", overlay="harness/v2/utils", harness="^VerifC18_nonfatal_fair$", native=True,
             params=dict(quick=dict(n=[1, 2, 3]), thorough=dict(n=[1, 2, 3, 4]))),
        dict(mod="v2", pkg="priority/utils", overlay="harness/v2/utils", harness="^VerifC18_nonfatal_rate_uf$", native=False, approx=True, refined_by="rate_exact",
             params=dict(quick=dict(n=[1, 2]), thorough=dict(n=[1, 2]))),
        dict(name="rate_exact", mod="v2", pkg="priority/utils", overlay="harness/v2/utils", harness="^VerifC18_nonfatal_rate_exact$", native=True,
             only_as_refinement=True, always_in_thorough=True, timeout=120000,
             params=dict(quick=dict(list=[1], Qbits=[4]), thorough=dict(list=[0, 1, 5], Qbits=[4]))),
        # suitable => non-fatal, monotone in the limit: exact floats (cvc5) on the catalogue, symbolic quantity and limits
        dict(name="suitable_exact", mod="v2", pkg="priority/utils", overlay="harness/v2/utils", harness="^VerifC18_suitable_exact$", native=True, timeout=120000,
             params=dict(quick=dict(list=[5], Qbits=[3]), thorough=dict(list=[5, 0], Qbits=[3]))),
        dict(mod="v2", pkg="priority/utils", overlay="harness/v2/utils", harness="^VerifC18_pickup", native=False,
             params=dict(quick=dict(n=[2], M=[6]), thorough=dict(n=[3], M=[12]))),
    ],
)

# v1 priority/utils.go: the same obligations on the v1 copies of the helpers (ported harness)
def _c18v1():
    out = []
    for g in list(PROPS["C18"]["groups"]):
        h = dict(g, mod="v1", pkg="priority", overlay="harness/v1/priority")
        if "name" in h:
            h["name"] = h["name"] + "_v1"
        if "refined_by" in h:
            h["refined_by"] = h["refined_by"] + "_v1"
        out.append(h)
    return out
PROPS["C18"]["groups"] += _c18v1()

PROPS["C18"]["groups"] += [
    dict(mod="v2", pkg="priority", overlay="harness/v2/priority", harness="^VerifC18_nonfatal_accepted_fair$", params=dict(quick=dict(n=[1, 2, 3]), thorough=dict(n=[1, 2, 3]))),
    dict(mod="v2", pkg="priority", overlay="harness/v2/priority", harness="^VerifC18_nonfatal_accepted_rate$", approx=True, params=dict(quick=dict(n=[1, 2]), thorough=dict(n=[1, 2]))),  # n=3 under uninterpreted floats does not finish within an hour (z3)
]

# ---- join / unite / limit ---------------------------------------------------------------------------

_JOIN_ASSUME = ["time: one symbolic non-decreasing clock; every clock reading may be arbitrarily later than the previous one; Sleep(d) advances by at least d; a ticker may fire at any blocking select (adversarial), within a per-run tick budget",
                "environment: the consumer eventually takes every slice (sink), releases a no-copy slice only after it was delivered, may overwrite copy-mode slices at once",
                "elements are symbolic machine integers; the code under test is data-independent"]

# larger JoinSize with two input slices: the fit / split boundaries only open up from JoinSize 5 on
_UNITE_WIDE = dict(mod="v2", pkg="join/unite", overlay="harness/v2/unite", harness="^VerifC03_unite_",
                   params=dict(quick=dict(JS=[5, 6], K=[2], T=[1]), thorough=dict(JS=[5, 6, 7, 8], K=[2], T=[1])))

# one LARGE JoinSize (5000: above any plausible pre-allocation cap), lengths around the boundaries, concrete elements: the paths
# are the length / mode / select choices only (no symbolic data, no solver work) - a boundary instance, not a proof of anything beyond it
_UNITE_LARGE = dict(mod="v2", pkg="join/unite", overlay="harness/v2/unite", harness="^VerifC03_unite_untimed$",
                    params=dict(quick=dict(JS=[5000], K=[2], T=[1]), thorough=dict(JS=[5000], K=[3], T=[1])))

def _join_groups(tier_params):
    return [
        dict(mod="v2", pkg="join", overlay="harness/v2/join", harness="^VerifC03_join_", params=tier_params("join")),
        dict(mod="v2", pkg="join/unite", overlay="harness/v2/unite", harness="^VerifC03_unite_", params=tier_params("unite")),
        _UNITE_WIDE, _UNITE_LARGE,
        dict(mod="v1", pkg="join", overlay="harness/v1/join", harness="^VerifC03_v1join_normal", params=tier_params("join")),
    ]

def _jp(kind):
    if kind == "unite":
        return dict(quick=dict(JS=[1, 2, 3], K=[3], T=[2]), thorough=dict(JS=[1, 2, 3, 4], K=[3], T=[2]))
    return dict(quick=dict(JS=[1, 2, 3], M=[4], T=[2]), thorough=dict(JS=[1, 2, 3, 4], M=[5], T=[2]))

_JOIN_BOUNDS = dict(quick="join: JoinSize 1..3, 4 elements, <=2 ticks interleaved adversarially at every select, copy and no-copy, timed and untimed; unite: JoinSize 1..3, 3 input slices with lengths 0..JoinSize+1",
                    thorough="join: JoinSize 1..4, 5 elements, <=2 ticks; unite: JoinSize 1..4, 3 input slices (plus JoinSize 5..8 with 2 slices and one JoinSize-5000 boundary instance)")

for _pid, _txt in [
    ("C03", "output slices concatenate to the input stream; size rules"),
    ("C08", "delivered slices are not written to / shared (heap-identity monitors: every store of the engine's heap is checked against the delivered backing arrays)"),
    ("C09", "greedy slicing without timeout; short slices only after Timeout measured on the symbolic clock"),
]:
    PROPS[_pid] = dict(
        level="model_checking",
        level_text="Bounded symbolic execution of the real New+main of join (v1, v2) and unite from go/ssa: " + _txt + ". Every select outcome (tick vs. input), copy/no-copy mode and "
                   "the timeout value are explored/symbolic; each assertion on each path is an SMT query over the symbolic clock and element values.",
        level_note="Bounds as listed in evidence.bounds; outside: longer streams, more ticks than the budget between two inputs (the loop body is the same for every tick). "
                   "Trusted: engine, channel/select/ticker model for one goroutine (DESIGN 3.5/3.6), slices.Clone executed from its real SSA body.",
        technique="symbolic execution of go/ssa with forked select outcomes and a symbolic clock; Int-encoded SMT queries (z3)",
        bounds=_JOIN_BOUNDS, assumptions=_JOIN_ASSUME, groups=_join_groups(_jp))

PROPS["C08"]["groups"] = PROPS["C08"]["groups"] + [
    dict(mod="v1", pkg="join", overlay="harness/v1/join", harness="^VerifC16_v1join_stop", params=dict(quick=dict(JS=[2], M=[3], T=[2]), thorough=dict(JS=[2, 3], M=[4], T=[2])))]

PROPS["C11"] = dict(
    level="model_checking",
    level_text="Bounded symbolic execution of the real unite New+main: every output slice is checked to be a concatenation of whole input slices in order, oversize inputs alone, "
               "for every sequence of input lengths in 0..JoinSize+1 and every interleaving of ticks.",
    level_note="Bounds in evidence.bounds. Trusted: as C03.",
    technique="symbolic execution of go/ssa with forked select outcomes; SMT (z3)",
    bounds=_JOIN_BOUNDS, assumptions=_JOIN_ASSUME,
    groups=[dict(mod="v2", pkg="join/unite", overlay="harness/v2/unite", harness="^VerifC03_unite_", params=_jp("unite")), _UNITE_WIDE, _UNITE_LARGE])

_LIM = dict(quick=dict(M=[0, 1, 2, 3, 4, 5]), thorough=dict(M=[0, 1, 2, 3, 4, 5]))  # M=6: one obligation stays undecided at 600 s per query
for _pid in ("C04", "C12"):
    PROPS[_pid] = dict(
        level="model_checking",
        level_text="Bounded symbolic execution of the real limit New+main on M symbolic elements with Quantity and Interval UNCONSTRAINED valid 64-bit values (the batch loop is bounded by the "
                   "elements supplied, not by Quantity) and a symbolic clock: batch k starts >= k Intervals after creation, batches hold <= Quantity sends, sends of batches a<b are "
                   ">= (b-a-1) Intervals apart (these imply the two stated count formulas by the 3-line derivation in DESIGN 7 C04); in addition the two stated count formulas themselves, on observable "
                   "instants only (creation, the instants at which elements leave): t_i - t0 >= floor(i/Q)*Interval and t_j - t_i >= (floor((j-i)/Q)-1)*Interval, floor(./Q) split into cases, asserted for the last "
                   "element of every run with at most 4 elements (runs with fewer elements are the prefixes; at 5 elements one window query stays undecided); pass-through, close, pause counts for C12. A limit discipline that paces with a ticker is outside the harness (machinery stop).",
        level_note="Bound: M elements (<=5), buffered (prefilled) and unbuffered (parked producer) input. Clock readings < 2^62 ns. Trusted: engine, time model.",
        technique="symbolic execution of go/ssa with a symbolic clock; Int-encoded SMT queries (z3)",
        bounds=dict(quick="M in 0..5 elements; three arrival patterns (all up-front, eager unbuffered writers, bursts after stalls)", thorough="as quick, 600 s per query (M=6 leaves one C04 obligation undecided and is not registered)"),
        assumptions=["time model of DESIGN 3.6: lower bounds only (arbitrary delays anywhere); Sleep(d) advances by >= d",
                     "count formulas follow from the per-batch facts: count <= (k+1)*Q and t >= k*I  =>  count <= Q*(floor(t/I)+1); window: (j-i-1)*I <= W => count <= Q*(floor(W/I)+2)"],
        groups=[dict(mod="v2", pkg="limit", overlay="harness/v2/limit", harness="^VerifC04_limit_run", params=_LIM, timeout=dict(quick=120000, thorough=600000))])

# ---- priority discipline ------------------------------------------------------------------------------

_PRIO_ASSUME = [
    "single-goroutine confinement (DESIGN 4.1): only the scheduling goroutine touches the discipline's mutable fields; a schedule is the sequence of outcomes of its own channel operations",
    "environment contract: a release token for priority p arrives only while an item of p is in flight; producers write each item once; closed channels stay closed",
    "step obligations start from an ARBITRARY state satisfying the representation invariant (sum(actual) <= H, sum(strategic over configured) <= H as mathematical integers, ghost == actual); "
    "the invariant is asserted at every round head of the bounded runs from New, so it is not stronger than what runs reach",
    "the divider is an arbitrary function writing the listed priorities and one foreign key (stub S1), filtered only by the real safeDivide; runs at loop level use an arbitrary SUM-PRESERVING divider except at the injected fault",
    "machine integers: Int encoding with explicit mod 2^64 on every operation that can wrap (exact Go semantics)",
]

def _v2p(harness, q, t, **kw):
    return dict(mod="v2", pkg="priority", overlay="harness/v2/priority", harness=harness, params=dict(quick=q, thorough=t), **kw)

# the two pure bookkeeping steps have no environment hooks: their counterexamples are also replayed natively (R2)
_G_STEP_A = _v2p("^VerifC01_step_(calcTactic|recalcTactic)$", dict(n=[1, 2, 3], J=[2]), dict(n=[1, 2, 3, 4], J=[3]), native=True)
_G_STEP_B = _v2p("^VerifC01_step_(io|feedback)$", dict(n=[1, 2, 3], J=[2]), dict(n=[1, 2, 3, 4], J=[3]))
_G_PRIOR = _v2p("^VerifC01_step_prioritize$", dict(n=[1, 2], J=[1]), dict(n=[1, 2], J=[2]))
_G_LOOP1 = _v2p("^VerifC07_(loop|main)$", dict(n=[1], J=[1], B=[1], K=[1]), dict(n=[1], J=[2], B=[2], K=[2]))
_G_PROMPT = _v2p("^VerifC07_prompt$", dict(n=[1, 2, 3], B=[2]), dict(n=[1, 2, 3, 4], B=[3]))
# (approx: the Rate case runs with uninterpreted floats, so a counterexample that does not replay concretely is only a candidate)
_G_NEW = _v2p("^VerifC15_new$", dict(n=[1, 2, 3]), dict(n=[1, 2, 3, 4]))
_G_NEW_RATE = _v2p("^VerifC15_new_rate$", dict(n=[1, 2, 3]), dict(n=[1, 2, 3, 4]), approx=True)
_G_SAFEDIV = _v2p("^VerifC15_safeDivide$", dict(n=[1, 2, 3]), dict(n=[1, 2, 3, 4]), native=True)
_G_RFAULT = _v2p("^VerifC15_round_fault$", dict(n=[1, 2], Hmax=[3]), dict(n=[1, 2], Hmax=[4]))
_G_RUNFAULT = _v2p("^VerifC15_run_fault$", dict(n=[1, 2], H=[1, 2], J=[1]), dict(n=[1, 2], H=[1, 2, 3], J=[1, 2]))
_G_LATE = _v2p("^VerifC07_run_late_close$", dict(n=[2], H=[2], K=[3]), dict(n=[2, 3], H=[2, 3], K=[3]))
_G_ROUND = _v2p("^Verif(C05_saturated_round|C06_progress|C06_sole_priority)$", dict(n=[1, 2], Hmax=[3]), dict(n=[1, 2, 3], Hmax=[4]))
_G_SAT3 = _v2p("^VerifC05_saturated_round$", dict(n=[3], Hmax=[3]), dict(n=[3], Hmax=[3]))
_G_SORTL = _v2p("^VerifC15_sort_large$", dict(n=[9, 17, 40]), dict(n=[9, 17, 40, 130]))
_G_ROUND2 = _v2p("^VerifC06_progress_two_rounds$", dict(n=[2, 3], Hmax=[3]), dict(n=[2, 3, 4], Hmax=[4]))
_G_RUN = _v2p("^VerifC02_run$", dict(n=[1, 2], H=[1, 2], J=[1]), dict(n=[1, 2], H=[1, 2, 3], J=[1]), maxpaths=400000)
# one busy input (JA items on the highest priority) next to idle ones: a round's second pass hands the unused allowance to the busy one (>= 3 items of one priority in one round)
_G_RUN_BUSY = _v2p("^VerifC02_run$", dict(n=[2], H=[2], J=[0], JA=[3]), dict(n=[2], H=[2, 3], J=[0, 1], JA=[3]), maxpaths=400000)
_G_RUN_RATE = _v2p("^VerifC02_run_rate$", dict(n=[1, 2], H=[1, 2], J=[1]), dict(n=[1, 2], H=[1, 2, 3], J=[1]), maxpaths=400000, approx=True)
_G_SIMPLE = dict(mod="v2", pkg="priority/simple", overlay="harness/v2/simple", harness="^VerifC01_simple_handler$",
                 params=dict(quick=dict(H=[1, 2], K=[3]), thorough=dict(H=[1, 2, 3], K=[4])))
# the simplified constructor: accepts exactly what the wrapped constructor accepts for the REQUESTED HandlersQuantity (symbolic, 0..N+2) and runs exactly that many handlers
_G_SIMPLE_NEW = dict(mod="v2", pkg="priority/simple", overlay="harness/v2/simple", harness="^VerifC01_simple_new$",
                     params=dict(quick=dict(N=[1, 2, 3]), thorough=dict(N=[1, 2, 3, 4, 5])))

_PRIO_NOTE = ("Bounds: n configured priorities (quick <=3, thorough <=4) with symbolic 64-bit values; J items per input per call; H and all counters are unconstrained 64-bit words in the step "
              "obligations; bounded runs from New use H<=2 (3), <=2 inputs, <=1 (2) items each. Outside: n beyond the bound, dividers that write more than one foreign key, handlers that release what they never received. "
              "Runs from New judge C02 on per-input queues of read-and-unwritten items (any order-preserving buffering passes), include one busy input (3 items) next to an idle one, and let several releases "
              "sit in the feedback buffer at once. v1 also has a black-box run (VerifBB_v1_run) that names only the command channels. "
              "Trusted: engine, channel/select/ticker model, stubs listed in evidence.")

def _prio(pid, text, groups, **kw):
    PROPS[pid] = dict(level="model_checking", level_text=text, level_note=_PRIO_NOTE,
                      technique="symbolic execution of go/ssa: inductive step obligations from arbitrary states + bounded runs; Int-encoded SMT (z3)",
                      assumptions=_PRIO_ASSUME, bounds=dict(quick="see level_note (quick bounds)", thorough="see level_note (thorough bounds)"), groups=groups, **kw)

_prio("C01", "In-flight <= HandlersQuantity: the capacity monitor (ghost handed-out minus released, +1 <= H) runs at the instant of every output write on every path of every real function of the round "
      "(calcTactic, recalcTactic, io, iou, prioritize, feedback readers), each started from an arbitrary state satisfying the invariant and shown to preserve it (inductive step: histories of any length), "
      "plus loop()/main() runs with releases at every point, runs from New, the constructor establishing the invariant, and the simple handler's receive->Handle->Release order.",
      [_G_STEP_A, _G_STEP_B, _G_PRIOR, _G_LOOP1, _G_NEW, _G_NEW_RATE, _G_RUN, _G_RUN_RATE, _G_SIMPLE, _G_SIMPLE_NEW])
_prio("C02", "Exactly-once, correctly tagged, FIFO per priority: pending-item monitor (an input read is followed by the output write of exactly that item with the priority its channel is registered under, "
      "before any other read) on all step and loop paths; completeness and per-priority order on bounded runs from New to termination; Handle exactly once per item in the simple handler.",
      [_G_STEP_A, _G_STEP_B, _G_PRIOR, _G_LOOP1, _G_RUN, _G_RUN_BUSY, _G_RUN_RATE, _G_SIMPLE])
_prio("C05", "Saturation: from any state with actual[p] <= strategic[p] (shares as the constructor leaves them) and every input never empty, after any batch of releases one real base() round ends with "
      "actual[p] == strategic[p] for every p, every hand-out keeps actual[p] <= strategic[p], and waits only when all handlers are busy; the constructor sorts priorities high->low before dividing (any Inputs map order).",
      [_G_ROUND, _G_SAT3, _G_NEW, _G_NEW_RATE, _G_SORTL])
_prio("C06", "Progress, reduced to solver-decidable obligations plus the ranking argument of DESIGN 7 C06: (P0) constructor guarantees every share >= 1 and shares sum to H; (P1) the discipline blocks on feedback only while "
      "something is in flight (loop/main/run harnesses); (P2) nothing in flight + data somewhere => an item is delivered in one round without a release; (P3) a round proceeds only if every uncrowded priority got >= 1; "
      "(P4) a sole active priority reaches H in one round.",
      [_G_ROUND, _G_ROUND2, _G_NEW, _G_NEW_RATE, _G_LOOP1, _G_RUN, _G_RUN_RATE, _v2p("^VerifC01_step_calcTactic$", dict(n=[1, 2, 3]), dict(n=[1, 2, 3, 4])),
       _v2p("^VerifC01_step_feedback$", dict(n=[1, 2], J=[2]), dict(n=[1, 2, 3], J=[3])), _G_LATE])
_prio("C07", "Termination exactly when drained and released: real loop()/main() from arbitrary between-rounds states with every input open / closed-with-backlog / drained: output and err are closed only with nothing in flight "
      "and (normal mode) all inputs closed, empty and marked drained; Drained is set only on an observed close; promptness (returns after exactly g releases, no idle sleep); no error value in normal mode.",
      [_G_LOOP1, _G_PROMPT, _v2p("^VerifC01_step_io$", dict(n=[1, 2, 3], J=[2]), dict(n=[1, 2, 3, 4], J=[3])), _G_RUN, _G_RUN_RATE, _G_LATE, _G_SIMPLE])
_prio("C15", "Divider contract and fail-safe faults: the stub divider ASSERTS its arguments (non-nil distribution, dividend <= H, list of configured priorities strictly descending) at every call on every path; "
      "a fault (non-zero added total != dividend) injected at any call of a round or of the constructor yields ErrDividerBad from safeDivide/New/loop, no hand-out afterwards, capacity monitor still holds, "
      "main reports exactly that value and closes; a whole round (real base(), n<=2, H<=3) from an arbitrary state with the fault at call index 0..3 of the round (first calcTactic, its retry after waiting for a release, either recalcTactic division) fails with ErrDividerBad; New rejects zero shares (Fair exact, Rate for any float values, arbitrary sum-preserving divider).",
      [_G_NEW, _G_NEW_RATE, _G_SAFEDIV, _G_STEP_A, _G_STEP_B, _G_LOOP1, _G_RFAULT, _G_RUNFAULT, _G_SORTL])

# ---- v1 ---------------------------------------------------------------------------------------------------

def _v1p(harness, q, t, **kw):
    return dict(mod="v1", pkg="priority", overlay="harness/v1/priority", harness=harness, params=dict(quick=q, thorough=t), **kw)

_SC16 = [dict(msg="^C16: after Stop/cancel", file="replay/v1/priority/c16_scenario_test.go", test="TestVerifScenarioC16Stop"),
         dict(msg="^C16: after Stop/cancel", file="replay/v1/priority/c16_scenario_test.go", test="TestVerifScenarioC16CancelOnly")]

PROPS["C16"] = dict(
    level="model_checking",
    level_text="Bounded symbolic execution of the real v1 main() of join and priority with Stop()/cancel injected at an arbitrary point (at start, between rounds, at any blocking operation) into an "
               "otherwise SILENT environment (no release, no consumer, no producer, no Released signal): every path must reach the end of main; a path that blocks is BLOCKED, a path that keeps taking "
               "the termination-signal case of the same select without terminating is a LASSO (a concrete infinite schedule) - both are reported as violations, replayed natively as a real-time scenario.",
    level_note="Bounds: priority n=1 (thorough n=2), <=1 item in flight at the start, <=1 item per input; join JoinSize 2, 3 elements. The priority state before the stop is ARBITRARY (any counters satisfying the invariant). "
               "Lasso bound: 40 repetitions of the same termination-signal case. Trusted: engine, breaker/closing executed from their real SSA, context stub.",
    technique="symbolic execution of go/ssa with adversarial stop injection and lasso detection; Int-encoded SMT (z3); native real-time scenario replay",
    assumptions=_PRIO_ASSUME + ["after the stop signal the environment is silent (the worst case the property names)"],
    bounds=dict(quick="priority n=1, B=1, J=1; join JS=2, M=3", thorough="priority n=1, J<=2, B<=2; join JS<=3, M=4"),
    groups=[
        dict(mod="v1", pkg="join", overlay="harness/v1/join", harness="^VerifC16_v1join_stop", params=dict(quick=dict(JS=[2], M=[3], T=[2]), thorough=dict(JS=[2, 3], M=[4], T=[2]))),
        _v1p("^VerifC16_v1prio_stop$", dict(n=[1], J=[1], B=[1], K=[1]), dict(n=[1], J=[1, 2], B=[1, 2], K=[1]), scenarios=_SC16),
    ],
)

_V1_STEP_A = _v1p("^VerifC01_step_(calcTactic|recalcTactic)$", dict(n=[1, 2, 3], J=[2]), dict(n=[1, 2, 3, 4], J=[3]), native=True)
_V1_STEP_B = _v1p("^VerifC01_step_(io|feedback)$", dict(n=[1, 2, 3], J=[2]), dict(n=[1, 2, 3, 4], J=[3]))
_V1_PRIOR = _v1p("^VerifC01_step_prioritize$", dict(n=[1, 2], J=[1]), dict(n=[1, 2], J=[2]))
_V1_MAIN = _v1p("^VerifC07_v1_main_graceful$", dict(n=[1], J=[1], B=[1], K=[1]), dict(n=[1], J=[2], B=[2], K=[2]))
_V1_PROMPT = _v1p("^VerifC07_v1_prompt$", dict(n=[1, 2, 3], B=[2]), dict(n=[1, 2, 3], B=[3]))
_V1_ROUND = _v1p("^Verif(C05_saturated_round|C06_progress|C06_sole_priority)$", dict(n=[1, 2], Hmax=[3]), dict(n=[1, 2, 3], Hmax=[4]))
_V1_RFAULT = _v1p("^VerifC15_round_fault$", dict(n=[1, 2], Hmax=[3]), dict(n=[1, 2], Hmax=[4]))
_V1_RUNFAULT = _v1p("^VerifC15_v1_run_fault$", dict(n=[1, 2], H=[1, 2], J=[1]), dict(n=[1, 2], H=[1, 2, 3], J=[1, 2]))
_V1_SAT3 = _v1p("^VerifC05_saturated_round$", dict(n=[3], Hmax=[3]), dict(n=[3], Hmax=[3]))
_V1_SORTL = _v1p("^VerifC15_sort_large$", dict(n=[9, 17, 40]), dict(n=[9, 17, 40, 130]))
_V1_NEW = _v1p("^VerifC15_v1_new$", dict(n=[1, 2, 3]), dict(n=[1, 2, 3, 4]))
_SCZ7 = [dict(msg="GracefulStop never completes", file="replay/v1/priority/c16_scenario_test.go", test="TestVerifScenarioC07ZeroShare")]
_SCZ6 = [dict(msg="an item is delivered without any release", file="replay/v1/priority/c16_scenario_test.go", test="TestVerifScenarioC06ZeroShare")]
_V1_Z7 = _v1p("^VerifC07_v1_zero_share$", dict(n=[3]), dict(n=[3]), scenarios=_SCZ7)
_V1_Z6 = _v1p("^VerifC06_v1_zero_share$", dict(n=[3], Hmax=[3]), dict(n=[3], Hmax=[4]), scenarios=_SCZ6)
_V1_SIMPLE = _v1p("^Verif(C16_v1simple_main|C01_v1simple_handler)$", dict(H=[1, 2], K=[2]), dict(H=[1, 2, 3], K=[3]))
_V1_C17RUN = _v1p("^VerifC17_v1_run$", dict(n=[2], H=[2], J=[2], C=[2], K=[3]), dict(n=[2], H=[2, 3], J=[2], C=[2], K=[3]))
# the same kind of run in a file that shares nothing with the white-box harnesses (survives re-organised bookkeeping): C01 / C02 / C07 / C17 on channel traffic alone
_V1_BBRUN = _v1p("^VerifBB_v1_run$", dict(n=[2], H=[2], J=[2], C=[2], K=[3]), dict(n=[2], H=[2, 3], J=[2], C=[2], K=[3]))
_V1_C17 = [_V1_C17RUN, _V1_BBRUN, _v1p("^VerifC17_step_", dict(n=[1, 2, 3]), dict(n=[1, 2, 3, 4]), native=True),
           _v1p("^VerifC17_loop_commands$", dict(n=[1], C=[2], J=[1], B=[1], K=[1]), dict(n=[1], C=[2, 3], J=[1], B=[1], K=[1]))]

PROPS["C01"]["groups"] += [_V1_STEP_A, _V1_STEP_B, _V1_PRIOR, _V1_MAIN, _V1_NEW, _V1_SIMPLE] + _V1_C17
PROPS["C02"]["groups"] += [_V1_STEP_A, _V1_STEP_B, _V1_PRIOR, _V1_MAIN, _V1_SIMPLE] + _V1_C17
PROPS["C05"]["groups"] += [_V1_ROUND, _V1_SAT3, _V1_NEW, _V1_SORTL]
PROPS["C06"]["groups"] += [_V1_ROUND, _v1p("^VerifC06_progress_two_rounds$", dict(n=[2, 3], Hmax=[3]), dict(n=[2, 3, 4], Hmax=[4])), _V1_MAIN, _V1_Z6, _V1_BBRUN, _v1p("^VerifC01_step_calcTactic$", dict(n=[1, 2, 3]), dict(n=[1, 2, 3, 4])), _v1p("^VerifC01_step_feedback$", dict(n=[1, 2], J=[2]), dict(n=[1, 2, 3], J=[3]))]
PROPS["C07"]["groups"] += [_V1_MAIN, _V1_PROMPT, _V1_Z7, _V1_SIMPLE, _V1_C17RUN, _V1_BBRUN, _v1p("^VerifC01_step_io$", dict(n=[1, 2, 3], J=[2]), dict(n=[1, 2, 3, 4], J=[3]))]
PROPS["C15"]["groups"] += [_V1_STEP_A, _V1_STEP_B, _V1_MAIN, _V1_NEW, _V1_RFAULT, _V1_RUNFAULT, _V1_SIMPLE, _V1_C17[2], _V1_SORTL]  # the divisions made by AddInput / RemoveInput obey the argument contract too
PROPS["C16"]["groups"] += [_V1_SIMPLE]
for _p in ("C01", "C02", "C05", "C06", "C07", "C15"):
    PROPS[_p]["level_note"] += " v1: ported harness (same obligations), plus removed priorities with items in flight (foreign key in actual); v1 progress/termination obligations assume every share >= 1 (documented precondition), the zero-share case is a recorded known finding."

PROPS["C17"] = dict(
    level="model_checking",
    level_text="Step obligations on the real addInput/removeInput/clearActual from an arbitrary state (add of a new priority, re-add of a removed one with items still in flight, replacement of a channel, removal): "
               "registration, strictly descending list without duplicates, strategic division recomputed over the current list, in-flight counters untouched and forgotten only at zero; plus the real loop() with add/replace/remove "
               "commands parked on the command channels and interleaved with rounds, under the capacity / exactly-once monitors, with an observer that fails on ANY receive from a channel after its removal or replacement was taken.",
    level_note=_PRIO_NOTE + " Command runs: <=2 commands, n<=1 quick (2 thorough).",
    technique="symbolic execution of go/ssa: step obligations + bounded command runs; Int-encoded SMT (z3)",
    assumptions=_PRIO_ASSUME + ["the strategic division in v1 is unchecked: the divider is assumed to obey the sum rule there (property quantifies over sum-preserving dividers)",
                                "'take effect on return' = the rendezvous on the unbuffered command channel followed in the same goroutine by addInput/removeInput before any other channel operation (observed on the event trace)"],
    bounds=dict(quick="steps n<=3; loop with 2 commands (n=1); run from New: 2 inputs, H=2, <=2 items each, 2 commands issued at arbitrary moments", thorough="steps n<=4; loop with 3 commands; run from New with H<=3"),
    groups=_V1_C17 + [_V1_MAIN])

PROPS["C19"] = dict(
    level="model_checking",
    level_text="Per go statement found in the SSA of the library (recomputed on every run): the goroutine function is run symbolically to its return in every termination mode that applies "
               "(normal close of inputs, ErrDividerBad, v1 graceful stop, Stop and cancel at arbitrary points) from arbitrary discipline states; every path must end (no BLOCKED / LASSO), tickers must be "
               "stopped, and after the goroutine's first termination signal (close of output/err) no blocking operation may follow. Goroutines a harness did not start explicitly are run at the end "
               "('leftover' obligation) and must end by themselves - this is what catches a goroutine added by a change. Handlers: v2 leave their range on output close; v1 return on context cancel and sign off from the WaitGroup before the channels are closed.",
    level_note="Bounds as for the harnesses reused (C03, C04, C07, C16 runs). A go site whose function no harness runs to completion is reported as UNPROVEN, not as passed. "
               "Not covered: goroutines of test-only internal packages (measurer, unmanaged, research).",
    technique="symbolic execution of go/ssa of every goroutine function to completion under each termination mode; go sites enumerated from SSA; SMT (z3) for path feasibility",
    assumptions=_PRIO_ASSUME + _JOIN_ASSUME,
    bounds=dict(quick="as C03/C04/C07/C16 quick", thorough="as C03/C04/C07/C16 thorough"),
    gosites=[dict(mod="v2", pkg="priority", overlay="harness/v2/priority"), dict(mod="v2", pkg="priority/simple", overlay="harness/v2/simple"),
             dict(mod="v2", pkg="join", overlay="harness/v2/join"), dict(mod="v2", pkg="join/unite", overlay="harness/v2/unite"),
             dict(mod="v2", pkg="limit", overlay="harness/v2/limit"), dict(mod="v1", pkg="priority", overlay="harness/v1/priority"),
             dict(mod="v1", pkg="join", overlay="harness/v1/join")],
    groups=[_G_LOOP1, _G_RUN, _G_RUN_RATE, _G_RUNFAULT, _G_NEW, _G_NEW_RATE, _G_SIMPLE, _G_SIMPLE_NEW, _V1_MAIN, _V1_NEW, _V1_RUNFAULT, _V1_SIMPLE,
            _v1p("^VerifC16_v1prio_stop$", dict(n=[1], J=[1], B=[1], K=[1]), dict(n=[1], J=[1], B=[1], K=[1])),
            dict(mod="v2", pkg="join", overlay="harness/v2/join", harness="^VerifC03_join_", params=dict(quick=dict(JS=[2], M=[3], T=[2]), thorough=dict(JS=[2, 3], M=[4], T=[2]))),
            dict(mod="v2", pkg="join/unite", overlay="harness/v2/unite", harness="^VerifC03_unite_", params=dict(quick=dict(JS=[2], K=[2], T=[2]), thorough=dict(JS=[2, 3], K=[3], T=[2]))),
            dict(mod="v2", pkg="limit", overlay="harness/v2/limit", harness="^VerifC04_limit_run", params=dict(quick=dict(M=[0, 2, 3]), thorough=dict(M=[0, 1, 2, 3, 4, 5]))),
            dict(mod="v1", pkg="join", overlay="harness/v1/join", harness="^Verif(C03_v1join_normal|C16_v1join_stop)", params=dict(quick=dict(JS=[2], M=[3], T=[2]), thorough=dict(JS=[2, 3], M=[4], T=[2])))])

_INACC = dict(quick=dict(inacc=[0, 1, 25, 34, 50, 100, 101], JS=[3]), thorough=dict(inacc=[0, 1, 2, 3, 4, 5, 6, 7, 8, 9, 10, 11, 12, 14, 16, 20, 25, 33, 34, 50, 51, 100, 101, 1000], JS=[2, 3, 4]))
PROPS["C10"] = dict(
    level="model_checking",
    level_text="Bounded runs of the real New+main with a PERIODIC ticker model (next tick = first grid point after the previous one was taken, + jitter <= lambda), timed arrivals and every clock reading / wake-up "
               "late by at most a symbolic lambda: for every delivered slice the oldest element waited <= Timeout + interval + 3*lambda, and no buffered element is overdue at any tick (1-2 elements, up to 4 ticks, d in {1,2}); "
               "plus step obligations that carry the argument to any history: (a) calcInterruptInterval as a pure function with Timeout symbolic over int64 and every "
               "value class of TimeoutInaccuracy: tau*d <= Timeout < (tau+1)*d, errors exactly in the documented cases (v1: tau >= 10ms); (b) New wires that interval into the ticker (period == tau, not Timeout); "
               "(c) on the real loop() of join (v1, v2) and unite from an ARBITRARY buffer state whose elements were accepted no earlier than passAt: a tick read at now with now-passAt >= Timeout flushes the whole buffer, "
               "an earlier tick changes nothing, an arrival never moves passAt unless it flushes (so a steady trickle cannot postpone the flush), and the invariant 'accepted no earlier than passAt' is preserved.",
    level_note="Assumed (the property's own premises): the runtime delivers a tick within tau+lambda of the previous one while the loop is not blocked (time.Ticker contract, built into the ticker model) and a ready consumer takes a slice at once. "
               "Beyond the bounded runs the step obligations give: stay <= Timeout + tau + c*lambda <= Timeout*(1+1/floor(100/inaccuracy)) + c*lambda (DESIGN 7 C10). Bounds: JoinSize 3 (thorough 2..4), one event per step.",
    technique="symbolic execution of go/ssa: pure-function obligations over the whole int64 domain + inductive step obligations on loop() with a symbolic clock; Int-encoded SMT (z3)",
    explanation="Checked by the solver: (a) tau*d <= Timeout < (tau+1)*d and the error cases of calcInterruptInterval for all Timeout; (b) ticker period == tau; (c) inductive step on loop(): flush at the first tick with now-passAt >= Timeout, "
                "passAt unchanged by arrivals that do not flush, buffered elements accepted no earlier than passAt. Combined on paper with the time.Ticker contract these bound the stay of an element by Timeout*(1+1/d) + c*lambda.",
    assumptions=_JOIN_ASSUME + ["time.Ticker delivers ticks with period tau (+ jitter <= lambda) while the receiver is not blocked elsewhere; a ready consumer takes a slice within lambda (both are the property's own premises: 'a consumer ready to receive', 'plus scheduling latency')"],
    bounds=dict(quick="inaccuracy in {0,1,25,34,50,100,101}, JoinSize 3, one event per step, Timeout over all int64", thorough="24 inaccuracy values covering every value of floor(100/inaccuracy), JoinSize 2..4"),
    groups=[dict(mod="v2", pkg="join", overlay="harness/v2/join", harness="^VerifC10_(interval|wiring|step)$", params=_INACC),
            dict(mod="v2", pkg="join/unite", overlay="harness/v2/unite", harness="^VerifC10_(interval|wiring|step)$", params=_INACC),
            dict(mod="v1", pkg="join", overlay="harness/v1/join", harness="^VerifC10_(interval|wiring|step)$", params=_INACC),
            # runs through the real New with an adversarial ticker (coarse clock): the LOGICAL flush rule - a tick taken at least Timeout after the
            # oldest buffered element was accepted is followed by a delivery before anything else happens (representation independent)
            dict(mod="v2", pkg="join", overlay="harness/v2/join", harness="^VerifC03_join_timed$", params=dict(quick=dict(JS=[2, 3], M=[4], T=[2]), thorough=dict(JS=[2, 3, 4], M=[5], T=[2]))),
            dict(mod="v2", pkg="join/unite", overlay="harness/v2/unite", harness="^VerifC03_unite_timed$", params=dict(quick=dict(JS=[2, 3], K=[3], T=[2]), thorough=dict(JS=[2, 3, 4], K=[3], T=[2]))),
            dict(mod="v1", pkg="join", overlay="harness/v1/join", harness="^VerifC03_v1join_normal$", params=dict(quick=dict(JS=[2, 3], M=[4], T=[2]), thorough=dict(JS=[2, 3, 4], M=[5], T=[2]))),
            # bounded runs with a periodic ticker, timed arrivals and a latency parameter lambda (c = 3)
            dict(mod="v2", pkg="join", overlay="harness/v2/join", harness="^VerifC10_run$", timeout=dict(quick=60000, thorough=180000),
                 params=dict(quick=dict(M=[1], inacc=[100, 50], c=[3], ticks=[3]), thorough=dict(M=[1], inacc=[100, 50], c=[3], ticks=[3]))),
            dict(mod="v2", pkg="join", overlay="harness/v2/join", harness="^VerifC10_run$", timeout=dict(quick=60000, thorough=180000), thorough_only=True,
                 params=dict(quick=dict(M=[2], inacc=[100], c=[3], ticks=[3]), thorough=dict(M=[2], inacc=[100], c=[3], ticks=[3]))),
            dict(mod="v2", pkg="join/unite", overlay="harness/v2/unite", harness="^VerifC10_run$", timeout=dict(quick=60000, thorough=180000),
                 params=dict(quick=dict(M=[1], inacc=[100], c=[3], ticks=[3]), thorough=dict(M=[1, 2], inacc=[100], c=[3], ticks=[3]))),
            dict(mod="v1", pkg="join", overlay="harness/v1/join", harness="^VerifC10_run$", timeout=dict(quick=60000, thorough=180000),
                 params=dict(quick=dict(M=[1], inacc=[100], c=[3], ticks=[3]), thorough=dict(M=[1, 2], inacc=[100], c=[3], ticks=[3])))])

def _c20(mod, pkg, overlay, harness, q, t, scen=None):
    g = dict(mod=mod, pkg=pkg, overlay=overlay, harness=harness, params=dict(quick=q, thorough=t), race_scenario_advisory=True)
    if scen:
        g["scenarios"] = [dict(msg="^C20:", file=scen, test="TestVerifScenarioC20Race", race=True)]
    return g

PROPS["C20"] = dict(
    level="model_checking",
    level_text="Happens-before checking by the solver over traces recorded from the real code: a complete run of each discipline is executed symbolically with the documented users as separate ROLES "
               "(creator, producer, scheduling goroutine, handlers / consumer, control goroutine); every load / store / map access made by library code and every user access to delivered slices is an event, "
               "channel operations, go statements, sync.Once, atomics and WaitGroups are the only cross-role order. For every pair of conflicting events of different roles the query 'two linear extensions "
               "of happens-before disagree on the pair' must be unsat. A sat answer is replayed in the engine and, as an advisory, natively under go test -race.",
    level_note="Bounds: the traces of the bounded runs (n<=2 inputs, H<=2 handlers, <=1-3 items, JoinSize<=2, 3 elements; v1 with AddInput/RemoveInput/GracefulStop commands). Roles are interleaved only at blocking points and "
               "between rounds; matchings of sends and receives are those of the explored paths. breaker.Break is represented by its channel close. Not covered: v1 Simple's handler goroutines, races that need more items/handlers than the bound.",
    technique="symbolic execution of go/ssa recording per-role access and synchronisation events; happens-before decided by SMT (integer difference constraints, z3)",
    assumptions=_PRIO_ASSUME + ["Go memory model edges used: program order, go statement -> goroutine start, send -> matching receive, close -> receive of closed, Once.Do completion -> later Do, atomic store -> load, WaitGroup.Done -> Wait",
                                "user goroutines are started after the constructor returned; a no-copy consumer only reads the slice it was lent; a copy-mode consumer keeps and modifies its slices for ever, including their spare capacity (append); a producer may keep READING what it has sent; the creator reuses (writes) the Inputs map it passed once New has returned"],
    bounds=dict(quick="v2 priority n=2,H=2,J=1; join/unite JS 1..2, 3 elements; limit 3 elements; v1 priority H=2,J=1 with 3 control commands; v1 join", thorough="v2 priority J=2, H<=3; JS<=3, 4 elements"),
    groups=[
        _c20("v2", "priority", "harness/v2/priority", "^VerifC20_", dict(n=[2], H=[2], J=[1]), dict(n=[2], H=[2, 3], J=[1, 2]), "replay/v2/priority/race_scenario_test.go"),
        _c20("v2", "join", "harness/v2/join", "^VerifC20_", dict(JS=[1, 2], M=[3]), dict(JS=[1, 2, 3], M=[4]), "replay/v2/join/race_scenario_test.go"),
        _c20("v2", "join/unite", "harness/v2/unite", "^VerifC20_", dict(JS=[1, 2], M=[3]), dict(JS=[1, 2, 3], M=[4]), "replay/v2/unite/race_scenario_test.go"),
        _c20("v2", "limit", "harness/v2/limit", "^VerifC20_", dict(M=[3]), dict(M=[5])),
        _c20("v1", "priority", "harness/v1/priority", "^VerifC20_", dict(H=[2], J=[1]), dict(H=[2, 3], J=[1, 2])),
        _c20("v1", "join", "harness/v1/join", "^VerifC20_", dict(JS=[1, 2], M=[3]), dict(JS=[1, 2, 3], M=[4])),
    ])

# translator validation groups (engine-concrete vs native on the repository's kind of test vectors)
PROPS["C14"]["groups"].append(dict(mod="v2", pkg="priority/divider", overlay="harness/v2/divider", harness="^VerifTV_dividers$", tv=True, jobs=2, params=dict(quick={}, thorough={})))
PROPS["C18"]["groups"].append(dict(mod="v2", pkg="priority/utils", overlay="harness/v2/utils", harness="^VerifTV_utils$", tv=True, jobs=2, params=dict(quick={}, thorough={})))
PROPS["C13"]["groups"].append(dict(mod="v2", pkg="limit", overlay="harness/v2/limit", harness="^VerifTV_rate$", tv=True, jobs=2, mode="int", params=dict(quick={}, thorough={})))

PROPS["C18"]["groups"] += [_V1_SORTL]
