package priority

// Native real-time scenarios (R3 replay) for the v1 priority findings. Each prints
// "VASSERT-FAILED: <message>" when the observable property is violated natively.

import (
	"context"
	"fmt"
	"testing"
	"time"
)

const vWatchdog = 2 * time.Second

func vWithin(f func()) bool {
	done := make(chan struct{})
	go func() { f(); close(done) }()
	select {
	case <-done:
		return true
	case <-time.After(vWatchdog):
		return false
	}
}

// all handlers busy, nobody releases, then Stop(): must return
func TestVerifScenarioC16Stop(t *testing.T) {
	in := make(chan int, 1)
	in <- 1
	out := make(chan Prioritized[int], 1)
	fb := make(chan uint)
	d, err := New(Opts[int]{Divider: FairDivider, Feedback: fb, HandlersQuantity: 1, Inputs: map[uint]<-chan int{1: in}, Output: out})
	if err != nil {
		t.Fatal(err)
	}
	<-out // handed out, never released
	time.Sleep(50 * time.Millisecond)
	if !vWithin(d.Stop) {
		fmt.Println("VASSERT-FAILED: C16: after Stop/cancel the scheduling goroutine spins for ever (all handlers busy, nobody releases)")
		return
	}
	fmt.Println("VSCENARIO-OK")
}

// the same with context cancellation: Stop() is documented as the way to wait for completion
func TestVerifScenarioC16Cancel(t *testing.T) {
	in := make(chan int, 1)
	in <- 1
	out := make(chan Prioritized[int], 1)
	fb := make(chan uint)
	ctx, cancel := context.WithCancel(context.Background())
	d, err := New(Opts[int]{Ctx: ctx, Divider: FairDivider, Feedback: fb, HandlersQuantity: 1, Inputs: map[uint]<-chan int{1: in}, Output: out})
	if err != nil {
		t.Fatal(err)
	}
	<-out
	time.Sleep(50 * time.Millisecond)
	cancel()
	if !vWithin(d.Stop) {
		fmt.Println("VASSERT-FAILED: C16: after Stop/cancel the scheduling goroutine spins for ever (all handlers busy, nobody releases)")
		return
	}
	fmt.Println("VSCENARIO-OK")
}

// context cancellation alone (nobody calls Stop): the discipline must still complete (Err() is closed)
func TestVerifScenarioC16CancelOnly(t *testing.T) {
	in := make(chan int, 1)
	in <- 1
	out := make(chan Prioritized[int], 1)
	fb := make(chan uint)
	ctx, cancel := context.WithCancel(context.Background())
	d, err := New(Opts[int]{Ctx: ctx, Divider: FairDivider, Feedback: fb, HandlersQuantity: 1, Inputs: map[uint]<-chan int{1: in}, Output: out})
	if err != nil {
		t.Fatal(err)
	}
	<-out
	time.Sleep(50 * time.Millisecond)
	cancel()
	if !vWithin(func() { <-d.Err() }) {
		fmt.Println("VASSERT-FAILED: C16: after Stop/cancel the scheduling goroutine blocks for ever (context cancelled, all handlers busy)")
		return
	}
	fmt.Println("VSCENARIO-OK")
}

// Simple: Handle honours its context but is still working; Stop() must return and no Handle may be running
func TestVerifScenarioC16Simple(t *testing.T) {
	in := make(chan int, 1)
	in <- 1
	entered := make(chan struct{}, 1)
	running := make(chan int, 4)
	handle := func(ctx context.Context, item int) {
		running <- 1
		entered <- struct{}{}
		<-ctx.Done()
		running <- -1
	}
	s, err := NewSimple(SimpleOpts[int]{Divider: FairDivider, Handle: handle, HandlersQuantity: 1, Inputs: map[uint]<-chan int{1: in}})
	if err != nil {
		t.Fatal(err)
	}
	<-entered
	time.Sleep(50 * time.Millisecond)
	if !vWithin(s.Stop) {
		fmt.Println("VASSERT-FAILED: C16: after Stop/cancel the scheduling goroutine spins for ever (all handlers busy, nobody releases)")
		return
	}
	n := 0
	for len(running) > 0 {
		n += <-running
	}
	if n != 0 {
		fmt.Println("VASSERT-FAILED: C16: a Handle call is still running after Simple.Stop returned")
		return
	}
	fmt.Println("VSCENARIO-OK")
}

// v1 accepts a configuration with zero shares (H=1, priorities 3,2,1, Fair): all inputs closed and
// empty, nothing in flight, GracefulStop must return
func TestVerifScenarioC07ZeroShare(t *testing.T) {
	ins := map[uint]<-chan int{}
	for _, p := range []uint{3, 2, 1} {
		ch := make(chan int)
		close(ch)
		ins[p] = ch
	}
	out := make(chan Prioritized[int], 1)
	fb := make(chan uint)
	d, err := New(Opts[int]{Divider: FairDivider, Feedback: fb, HandlersQuantity: 1, Inputs: ins, Output: out})
	if err != nil {
		t.Fatal(err)
	}
	if !vWithin(d.GracefulStop) {
		fmt.Println("VASSERT-FAILED: C07: GracefulStop never completes: an input whose priority has a zero share is never read, so never marked drained")
		return
	}
	fmt.Println("VSCENARIO-OK")
}

// zero share, data only on the starved priority, nothing in flight: nothing is ever delivered
func TestVerifScenarioC06ZeroShare(t *testing.T) {
	ins := map[uint]<-chan int{}
	var low chan int
	for _, p := range []uint{3, 2, 1} {
		ch := make(chan int, 1)
		if p == 1 {
			low = ch
		}
		ins[p] = ch
	}
	low <- 7
	out := make(chan Prioritized[int], 1)
	fb := make(chan uint)
	d, err := New(Opts[int]{Divider: FairDivider, Feedback: fb, HandlersQuantity: 1, Inputs: ins, Output: out})
	if err != nil {
		t.Fatal(err)
	}
	defer d.Stop()
	select {
	case <-out:
		fmt.Println("VSCENARIO-OK")
	case <-time.After(vWatchdog):
		fmt.Println("VASSERT-FAILED: C06: with nothing in flight and data on some input an item is delivered without any release")
	}
}
