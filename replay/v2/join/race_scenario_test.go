package join

// Native scenario for C20 (run with -race): copy-mode consumer keeps and modifies
// slices while the producer keeps reading what it has sent.

import (
	"fmt"
	"sync"
	"testing"
)

func TestVerifScenarioC20Race(t *testing.T) {
	for round := 0; round < 20; round++ {
		in := make(chan int, 2)
		d, err := New(Opts[int]{Input: in, JoinSize: 3})
		if err != nil {
			t.Fatal(err)
		}
		var wg sync.WaitGroup
		wg.Add(2)
		go func() {
			defer wg.Done()
			var sent [][]int
			for i := 0; i < 40; i++ {
				s := []int{i}
				sent = append(sent, s)
				in <- s[0]
				for _, o := range sent {
					_ = o[0]
				}
			}
			close(in)
		}()
		go func() {
			defer wg.Done()
			var kept [][]int
			for s := range d.Output() {
				kept = append(kept, s)
				for _, k := range kept {
					k[0]++
				}
			}
		}()
		wg.Wait()
	}
	fmt.Println("VSCENARIO-OK")
}
