package priority

// Native scenario for C20 (run with -race): documented concurrent use of the v2
// priority discipline; the race detector is the observer.

import (
	"fmt"
	"sync"
	"testing"

	"github.com/akramarenkov/cqos/v2/priority/divider"
)

func TestVerifScenarioC20Race(t *testing.T) {
	for round := 0; round < 20; round++ {
		inputs := map[uint]<-chan int{}
		var chans []chan int
		for i := 0; i < 3; i++ {
			ch := make(chan int, 2)
			chans = append(chans, ch)
			inputs[uint(i+1)] = ch
		}
		d, err := New(Opts[int]{Divider: divider.Rate, HandlersQuantity: 6, Inputs: inputs})
		if err != nil {
			t.Fatal(err)
		}
		var wg sync.WaitGroup
		for _, ch := range chans {
			wg.Add(1)
			go func(ch chan int) {
				defer wg.Done()
				for i := 0; i < 50; i++ {
					ch <- i
				}
				close(ch)
			}(ch)
		}
		for h := 0; h < 6; h++ {
			wg.Add(1)
			go func() {
				defer wg.Done()
				for x := range d.Output() {
					d.Release(x.Priority)
				}
			}()
		}
		<-d.Err()
		wg.Wait()
	}
	fmt.Println("VSCENARIO-OK")
}
